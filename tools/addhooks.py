#!/usr/bin/env python3
"""One-shot helper used to insert the add-only verification hooks into /repo.
Each rule: (file, anchor substring (must match exactly one line, or nth), 'before'|'after', line to insert).
Kept for the record; the hooks themselves live in /repo's git history."""
import sys,re
rules=[]
def R(f,anchor,where,text,nth=0,count=1,indent=''): rules.append((f,anchor,where,text,nth,count,indent))

# ---- txn.go: oracle / commit pipeline
R('txn.go','	o.readMark.Begin(readTs)','after','	y.VerifPoint("readTs.begin")')
R('txn.go','	y.Check(o.txnMark.WaitForMark(context.Background(), readTs))','before','	y.VerifPoint("readTs.wait")')
R('txn.go','	y.Check(o.txnMark.WaitForMark(context.Background(), readTs))','after','	y.VerifPoint("readTs.done")')
R('txn.go','	orc.writeChLock.Lock()','before','	y.VerifPoint("commit.enter")')
R('txn.go','	commitTs, conflict := orc.newCommitTs(txn)','after','	y.VerifPoint("commit.ts")')
R('txn.go','	req, err := txn.db.sendToWriteCh(entries)','after','	y.VerifPoint("commit.sent")')
R('txn.go','		err := req.Wait()','after','		y.VerifPoint("commit.applied")',nth=0)
# ---- db.go
R('db.go','	err := db.vlog.write(reqs)','before','	y.VerifPoint("write.vlog")')
R('db.go','		if err := db.writeToLSM(b); err != nil {','before','		y.VerifPoint("write.lsm")')
R('db.go','	db.pub.sendUpdates(reqs)','before','	y.VerifPoint("write.pub")')
R('db.go','	done(nil)','after','	y.VerifPoint("write.done")')
R('db.go','		db.imm = append(db.imm, db.mt)','after','		y.VerifPoint("mt.rotate")',nth=0,count=2)
R('db.go','	fileID := db.lc.reserveFileID()','before','	y.VerifPoint("flush.build")')
R('db.go','	err = db.lc.addLevel0Table(tbl) // This will incrRef','before','	y.VerifPoint("flush.add")')
R('db.go','	err = db.lc.addLevel0Table(tbl) // This will incrRef','after','	y.VerifPoint("flush.added")')
R('db.go','			// Update s.imm. Need a lock.','before','			y.VerifPoint("flush.pop")')
R('db.go','	db.writeCh <- req // Handled in doWrites.','before','	y.VerifPoint("send.enqueue")')
R('db.go','	if err := db.blockWrite(); err != nil {','before','	y.VerifPoint("drop.block")')
R('db.go','	db.stopCompactions()','before','	y.VerifPoint("dropall.stopcompact")',nth=3,count=5)
R('db.go','	num, err := db.lc.dropTree()','before','	y.VerifPoint("dropall.tree")')
R('db.go','	num, err = db.vlog.dropAll()','before','	y.VerifPoint("dropall.vlog")')
R('db.go','	if err := db.lc.dropPrefixes(filtered); err != nil {','before','	y.VerifPoint("dropprefix.levels")')
R('db.go','		seq.leased = lease','after','		y.VerifPoint("seq.leased")')
# ---- levels.go
R('levels.go','	defer s.cstatus.delete(cd) // Remove the ranges from compaction status.','after','	y.VerifPoint("compact.picked")')
R('levels.go','	changeSet := buildChangeSet(&cd, newTables)','before','	y.VerifPoint("compact.built")')
R('levels.go','	if err := nextLevel.replaceTables(cd.bot, newTables); err != nil {','before','	y.VerifPoint("compact.manifest")')
R('levels.go','	if err := thisLevel.deleteTables(cd.top); err != nil {','before','	y.VerifPoint("compact.replaced")')
R('levels.go','	from := append(tablesToString(cd.top), tablesToString(cd.bot)...)','before','	y.VerifPoint("compact.deleted")')
R('levels.go','			if err := os.Remove(filename); err != nil {','before','			y.VerifIO("unlink", filename)')
# ---- value.go
R('value.go','	// vlogGCPauseHook fires here in tests to inject a delete + compaction','before','	y.VerifPoint("gc.scanned")')
R('value.go','	vlog.opt.Infof("Processed %d entries in %d loops", len(wb), loops)','before','	y.VerifPoint("gc.writtenback")')
R('value.go','	if deleteFileNow {','before','	y.VerifPoint("gc.predelete")')
R('value.go','	for _, lf := range lfs {','before','	y.VerifPoint("gc.deferred")')
R('value.go','	v.valueCh <- sizes','before','	y.VerifPoint("threshold.update")')
R('value.go','				v.valueThreshold.Store(p)','before','				y.VerifPoint("threshold.store")')
# persistence hooks: ALWAYS placed BEFORE the step ("about to do op on path"), so that the
# state between any two consecutive steps is the state seen at exactly one hook.
R('value.go','	return lf.Delete()','before','	y.VerifIO("unlink", lf.path)')
R('value.go','			if err := lf.Delete(); err != nil {','before','			y.VerifIO("unlink", lf.path)')
R('value.go','	err := curlf.Sync()','before','	y.VerifIO("msync", curlf.path)')
R('value.go','			if err := curlf.Sync(); err != nil {','before','			y.VerifIO("msync", curlf.path)')
R('value.go','		y.AssertTrue(copy(curlf.Data[start:], buf.Bytes()) == int(n))','before','		y.VerifIO("mmapwrite", curlf.path)')
R('value.go','		if terr := lf.Close(offset); terr != nil && err == nil {','before','		y.VerifIO("closetrunc", lf.path)')
# ---- memtable.go
R('memtable.go','	return mt.wal.Sync()','before','	y.VerifIO("msync", mt.wal.path)')
R('memtable.go','			if err := mt.wal.Delete(); err != nil {','before','			y.VerifIO("unlink", mt.wal.path)')
R('memtable.go','	return lf.MmapFile.Truncate(end)','before','	y.VerifIO("truncate", lf.path)')
R('memtable.go','	y.AssertTrue(plen == copy(lf.Data[lf.writeAt:], buf.Bytes()))','before','	y.VerifIO("mmapwrite", lf.path)')
R('memtable.go','			if err := lf.Sync(); err != nil {','before','			y.VerifIO("msync", lf.path)')
R('memtable.go','	mf, ferr := z.OpenMmapFile(path, flags, int(fsize))','before','	y.VerifIO("open", path)')
R('memtable.go','	y.AssertTrue(vlogHeaderSize == copy(lf.Data[0:], buf))','before','	y.VerifIO("mmapwrite", lf.path)')
# ---- manifest.go
R('manifest.go','		if _, err := mf.fp.Write(buf); err != nil {','before','		y.VerifIO("write", filepath.Join(mf.directory, ManifestFilename))')
R('manifest.go','	return syncFunc(mf.fp)','before','	y.VerifIO("fsync", filepath.Join(mf.directory, ManifestFilename))')
R('manifest.go','			if err := fp.Truncate(truncOffset); err != nil {','before','			y.VerifIO("truncate", path)')
R('manifest.go','	fp, err := y.OpenTruncFile(rewritePath, false)','before','	y.VerifIO("open", rewritePath)')
R('manifest.go','	if _, err := fp.Write(buf); err != nil {','before','	y.VerifIO("write", rewritePath)')
R('manifest.go','	if err := fp.Sync(); err != nil {','before','	y.VerifIO("fsync", rewritePath)')
R('manifest.go','	if err := os.Rename(rewritePath, manifestPath); err != nil {','before','	y.VerifIO("rename", rewritePath+"\x00"+manifestPath)')
# ---- dir_unix.go
R('dir_unix.go','	err = f.Sync()','before','	y.VerifIO("dirsync", dir)')
R('dir_unix.go','		err = os.WriteFile(absPidFilePath, []byte(fmt.Sprintf("%d\\n", os.Getpid())), 0666)','before','		y.VerifIO("write", absPidFilePath)')
R('dir_unix.go','		err = os.Remove(guard.path)','before','		y.VerifIO("unlink", guard.path)')
# ---- table/table.go
R('table/table.go','	mf, err := z.OpenMmapFile(fname, os.O_CREATE|os.O_RDWR|os.O_EXCL, bd.Size)','before','	y.VerifIO("open", fname)')
R('table/table.go','	written := bd.Copy(mf.Data)','before','	y.VerifIO("mmapwrite", fname)')
R('table/table.go','	if err := z.Msync(mf.Data); err != nil {','before','	y.VerifIO("msync", fname)')
R('table/table.go','		if err := t.Delete(); err != nil {','before','		y.VerifIO("unlink", t.Fd.Name())')
# ---- discard.go
R('discard.go','	mf, err := z.OpenMmapFile(fname, os.O_CREATE|os.O_RDWR, 1<<20)','before','	y.VerifIO("open", fname)')
R('discard.go','	idx := sort.Search(lf.nextEmptySlot, func(slot int) bool {','before','	y.VerifIO("mmapwrite", lf.Fd.Name())')
# ---- key_registry.go
R('key_registry.go','	fp, err := y.OpenTruncFile(tmpPath, true)','before','	y.VerifIO("open", tmpPath)')
R('key_registry.go','	if _, err = fp.Write(buf.Bytes()); err != nil {','before','	y.VerifIO("dwrite", tmpPath)')
R('key_registry.go','	if err = os.Rename(tmpPath, filepath.Join(opt.Dir, KeyRegistryFileName)); err != nil {','before','	y.VerifIO("rename", tmpPath+"\x00"+filepath.Join(opt.Dir, KeyRegistryFileName))')
R('key_registry.go','		if _, err = kr.fp.Write(buf.Bytes()); err != nil {','before','		y.VerifIO("dwrite", filepath.Join(kr.opt.Dir, KeyRegistryFileName))')
# ---- skl
R('skl/skl.go','func (s *Skiplist) randomHeight() int {','after','if h := y.VerifHeight(); h > 0 {\n	return h\n}',indent='\t')
# ---- stream.go
# ---- publisher / merge: none
import os
os.chdir('/repo')
byfile={}
bad=False
out={}
for r in rules: byfile.setdefault(r[0],[]).append(r)
for f,rs in byfile.items():
    lines=open(f).read().split('\n')
    ins=[] # (index, where, text)
    for (_,anchor,where,text,nth,count,xind) in rs:
        a=anchor.rstrip('\n')
        idx=[i for i,l in enumerate(lines) if l.strip()==a.strip()]
        if len(idx)!=count:
            print("ANCHOR MISMATCH",f,repr(anchor),len(idx),idx); bad=True; continue
        i=idx[nth]
        ind=lines[i][:len(lines[i])-len(lines[i].lstrip())]+xind
        tl=text.split('\n'); base=len(tl[0])-len(tl[0].lstrip())
        text='\n'.join(ind+t[base:] for t in tl)
        ins.append((i if where=='before' else i+1, text))
    # insert from bottom; stable for equal positions keep rule order
    for pos,text in sorted(ins,key=lambda t:-t[0]):
        lines[pos:pos]=text.split('\n')
    out[f]='\n'.join(lines)
if bad: sys.exit(1)
for f,c in out.items(): open(f,'w').write(c)
print('ok')
