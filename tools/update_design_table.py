#!/usr/bin/env python3
"""Replaces the lines between the seeded-table markers of DESIGN.md by the output of seeded_table.py."""
import subprocess
t=subprocess.run(['python3','/verif/tools/seeded_table.py'],capture_output=True,text=True).stdout.rstrip('\n').split('\n')
L=open('/verif/DESIGN.md').read().split('\n')
b=[i for i,l in enumerate(L) if l.strip()=='<!-- seeded-table:begin -->']
e=[i for i,l in enumerate(L) if l.strip()=='<!-- seeded-table:end -->']
assert len(b)==1 and len(e)==1 and b[0]<e[0], (b,e)
L=L[:b[0]+1]+t+L[e[0]:]
open('/verif/DESIGN.md','w').write('\n'.join(L))
print('rows',len(t)-2)
