// mkoverlay generates the `go build -overlay` file that binds the verification machinery to the
// CURRENT /repo tree without touching it:
//
//   - every non-test .go file of the listed packages gets `import "sync"` rewritten to the
//     channel-based shim vshim/vsync (and, for -atomic packages, `sync/atomic` to vshim/vatomic);
//   - optional -chanpoints files get y.VerifPoint("chan:<file>:<line>") inserted before each
//     statement that directly contains a channel send/receive/select (fine mode);
//   - existing *_test.go files of packages that receive a harness are replaced by empty stubs;
//   - the harness sources in /verif/harness/<pkg>/ are injected as zz_verif_*_test.go;
//   - the shim / engine packages are added as virtual packages under <repo>/vshim/.
//
// Only import lines (and mechanically found channel statements) are rewritten, so the overlay
// follows any edit made to /repo.
package main

import (
	"encoding/json"
	"flag"
	"fmt"
	"go/ast"
	"go/parser"
	"go/token"
	"os"
	"path/filepath"
	"regexp"
	"sort"
	"strings"
)

const modPath = "github.com/dgraph-io/badger/v4"

var (
	repo       = flag.String("repo", "/repo", "repository root")
	verif      = flag.String("verif", "/verif", "verif root")
	out        = flag.String("out", "/verif/.work/ov", "output directory")
	name       = flag.String("name", "coarse", "overlay variant name")
	atomicPk   = flag.String("atomic", "", "comma list of packages (., y, skl) whose sync/atomic import is shimmed")
	chanPoints = flag.String("chanpoints", "", "comma list of files that get channel-statement points")
	nosync     = flag.Bool("nosync", false, "do not shim sync (free-running -race variant)")
)

var pkgs = []string{".", "y", "table", "skl", "trie"}

var reSync = regexp.MustCompile(`(?m)^(\s*)"sync"\s*$`)
var reAtomic = regexp.MustCompile(`(?m)^(\s*)"sync/atomic"\s*$`)

func must(err error) {
	if err != nil {
		fmt.Fprintln(os.Stderr, "mkoverlay:", err)
		os.Exit(2)
	}
}

func main() {
	flag.Parse()
	ov := map[string]string{}
	dst := filepath.Join(*out, *name)
	must(os.RemoveAll(dst))
	must(os.MkdirAll(dst, 0o755))
	atomics := map[string]bool{}
	for _, p := range strings.Split(*atomicPk, ",") {
		if p != "" {
			atomics[p] = true
		}
	}
	cps := map[string]bool{}
	for _, p := range strings.Split(*chanPoints, ",") {
		if p != "" {
			cps[p] = true
		}
	}
	write := func(rel string, data []byte) string {
		p := filepath.Join(dst, "src", rel)
		must(os.MkdirAll(filepath.Dir(p), 0o755))
		must(os.WriteFile(p, data, 0o644))
		return p
	}
	for _, pk := range pkgs {
		dir := filepath.Join(*repo, pk)
		ents, err := os.ReadDir(dir)
		must(err)
		harnessDir := filepath.Join(*verif, "harness", pkName(pk))
		_, herr := os.Stat(harnessDir)
		hasHarness := herr == nil
		for _, e := range ents {
			n := e.Name()
			if e.IsDir() || !strings.HasSuffix(n, ".go") {
				continue
			}
			rel := filepath.Join(pk, n)
			full := filepath.Join(dir, n)
			src, err := os.ReadFile(full)
			must(err)
			if strings.HasSuffix(n, "_test.go") {
				if hasHarness {
					// stub out the repository's own tests in packages that get a harness
					ov[full] = write(rel, []byte("package "+packageClause(src)+"\n"))
				}
				continue
			}
			orig := string(src)
			s := orig
			if cps[rel] {
				s = insertChanPoints(rel, s)
			}
			if !*nosync {
				s = reSync.ReplaceAllString(s, `${1}sync "`+modPath+`/vshim/vsync"`)
			}
			if atomics[pk] {
				s = reAtomic.ReplaceAllString(s, `${1}atomic "`+modPath+`/vshim/vatomic"`)
			}
			if s != orig {
				ov[full] = write(rel, []byte(s))
			}
		}
		if hasHarness {
			hs, err := os.ReadDir(harnessDir)
			must(err)
			for _, h := range hs {
				if h.IsDir() || !strings.HasSuffix(h.Name(), ".go") {
					continue
				}
				base := strings.TrimSuffix(strings.TrimSuffix(h.Name(), ".go"), "_test")
				ov[filepath.Join(dir, "zz_verif_"+base+"_test.go")] = filepath.Join(harnessDir, h.Name())
			}
		}
	}
	// virtual packages
	virt := map[string]string{
		"vshim/vsync":   "shim/vsync",
		"vshim/vatomic": "shim/vatomic",
		"vshim/sched":   "engine/sched",
		"vshim/vlib":    "engine/vlib",
	}
	for to, from := range virt {
		d := filepath.Join(*verif, from)
		ents, err := os.ReadDir(d)
		if err != nil {
			continue
		}
		for _, e := range ents {
			if !e.IsDir() && strings.HasSuffix(e.Name(), ".go") && !strings.HasSuffix(e.Name(), "_test.go") {
				ov[filepath.Join(*repo, to, e.Name())] = filepath.Join(d, e.Name())
			}
		}
	}
	keys := make([]string, 0, len(ov))
	for k := range ov {
		keys = append(keys, k)
	}
	sort.Strings(keys)
	m := map[string]any{"Replace": ov}
	b, err := json.MarshalIndent(m, "", " ")
	must(err)
	must(os.WriteFile(filepath.Join(*out, *name+".json"), b, 0o644))
	fmt.Printf("overlay %s: %d entries\n", *name, len(keys))
}

func pkName(pk string) string {
	if pk == "." {
		return "badger"
	}
	return pk
}

func packageClause(src []byte) string {
	fs := token.NewFileSet()
	f, err := parser.ParseFile(fs, "", src, parser.PackageClauseOnly)
	if err != nil {
		return "badger"
	}
	return f.Name.Name
}

// insertChanPoints inserts a y.VerifPoint call before every statement that directly contains a
// channel send, receive or select (not descending into nested blocks / function literals).
func insertChanPoints(rel, src string) string {
	fs := token.NewFileSet()
	f, err := parser.ParseFile(fs, rel, src, parser.ParseComments)
	must(err)
	lines := map[int]bool{}
	var visitBlock func(list []ast.Stmt)
	hasChanOp := func(n ast.Node) bool {
		found := false
		ast.Inspect(n, func(x ast.Node) bool {
			switch v := x.(type) {
			case *ast.FuncLit, *ast.BlockStmt:
				return false
			case *ast.SendStmt:
				found = true
			case *ast.UnaryExpr:
				if v.Op == token.ARROW {
					found = true
				}
			}
			return !found
		})
		return found
	}
	var visitStmt func(st ast.Stmt)
	visitStmt = func(st ast.Stmt) {
		switch v := st.(type) {
		case *ast.SelectStmt:
			lines[fs.Position(v.Pos()).Line] = true
			for _, c := range v.Body.List {
				visitBlock(c.(*ast.CommClause).Body)
			}
		case *ast.BlockStmt:
			visitBlock(v.List)
		case *ast.IfStmt:
			if v.Init != nil && hasChanOp(v.Init) {
				lines[fs.Position(v.Pos()).Line] = true
			}
			visitBlock(v.Body.List)
			if v.Else != nil {
				visitStmt(v.Else)
			}
		case *ast.ForStmt:
			visitBlock(v.Body.List)
		case *ast.RangeStmt:
			visitBlock(v.Body.List)
		case *ast.SwitchStmt:
			for _, c := range v.Body.List {
				visitBlock(c.(*ast.CaseClause).Body)
			}
		case *ast.TypeSwitchStmt:
			for _, c := range v.Body.List {
				visitBlock(c.(*ast.CaseClause).Body)
			}
		case *ast.LabeledStmt:
			visitStmt(v.Stmt)
		case *ast.GoStmt, *ast.DeferStmt:
			// function literals inside are handled by the top-level walk
		default:
			if hasChanOp(st) {
				lines[fs.Position(st.Pos()).Line] = true
			}
		}
	}
	visitBlock = func(list []ast.Stmt) {
		for _, st := range list {
			visitStmt(st)
		}
	}
	ast.Inspect(f, func(n ast.Node) bool {
		switch v := n.(type) {
		case *ast.FuncDecl:
			if v.Body != nil {
				visitBlock(v.Body.List)
			}
		case *ast.FuncLit:
			visitBlock(v.Body.List)
		}
		return true
	})
	ls := strings.Split(src, "\n")
	var outl []string
	pkgIsY := f.Name.Name == "y"
	for i, l := range ls {
		if lines[i+1] {
			call := fmt.Sprintf(`y.VerifPoint("chan:%s:%d")`, filepath.Base(rel), i+1)
			if pkgIsY {
				call = fmt.Sprintf(`VerifPoint("chan:%s:%d")`, filepath.Base(rel), i+1)
			}
			// keep line numbers: put the call on the same line
			ind := l[:len(l)-len(strings.TrimLeft(l, " \t"))]
			l = ind + call + "; " + strings.TrimLeft(l, " \t")
		}
		outl = append(outl, l)
	}
	return strings.Join(outl, "\n")
}
