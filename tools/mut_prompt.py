import json,sys
pid=sys.argv[1]
for l in open('/verif/properties.jsonl'):
    p=json.loads(l)
    if p['id']==pid: break
rnd=sys.argv[2] if len(sys.argv)>2 else ""
wt=f"/tmp/mut/wt-{pid}{rnd}"
out=f"/tmp/mut/out-{pid}{rnd}"
avoid=""
if rnd:
    import glob,re
    seen=[]
    for f in sorted(glob.glob(f"/verif/seeded/{pid}-*/patch.diff")):
        cur=None
        for line in open(f):
            if line.startswith("+++ b/"): cur=line[6:].strip()
            m=re.match(r"@@.*@@ (.*)",line)
            if m and cur:
                t=f"{cur}: {m.group(1).strip()[:90]}"
                if t not in seen: seen.append(t)
    if seen:
        avoid="\n  - Changes in the following places have been studied already; pick OTHER functions / mechanisms: "+"; ".join(seen)+"."
text=(f"""You are helping test a verification effort for the Go key-value store dgraph-io/badger (v4). A scratch git worktree of the repository is at {wt} (your own copy; work ONLY there and in {out}; never touch /repo or /verif, and do not read anything under /verif).

Here is a semantic property of badger that should always hold:

  Title: {p['title']}
  Statement: {p['statement']}
  Holds over: {p['quantifier']['text']}
  Code it is anchored in: {', '.join(p['anchors'].get('files',[]))}
  Mechanisms: {'; '.join(m['name']+' ('+m.get('where','')+')' for m in p['anchors'].get('mechanism',[]))}

Your task: produce TWO different, realistic changes (bugs a developer could plausibly introduce: an off-by-one, a reordered pair of steps, a dropped condition, a cached value reused, a lock scope narrowed, a boundary comparison flipped, ...) to the NON-test Go source of badger in the worktree, each of which BREAKS this property, while the code still compiles and the repository's EXISTING test suite still passes. Prefer changes that need something specific to manifest (a particular interleaving, a crash or fault at a particular point, a multi-step sequence of operations, an unusual input or option combination, or two cooperating edits that each look fine alone) rather than ones that any ordinary use would expose at once. The two changes should be in different functions / mechanisms.

For each change k in 1,2 write into {out}/<k>/ :
  - patch.diff : `git diff` of the change against the worktree HEAD (non-test files only; must apply with `git apply` at the repository root)
  - demo_test.go : a Go test file (package badger, or the package where the bug is — say which in notes.md) with ONE test function that FAILS with the change applied and PASSES without it, run as `go test -mod=mod -vet=off -count=1 -run '^TestName$' <pkg>`. It must demonstrate the property violation itself (observable through the behaviour the property talks about), deterministically (use deterministic construction rather than races where at all possible; internal/unexported functions of the package may be called to force a specific compaction, flush, interleaving or crash image).
  - notes.md : 5-15 lines: what the change is, why it breaks the property, what it needs to manifest, the package of the demo test, and the exact commands you ran with their results.

Ground rules:
  - Environment: offline sandbox. Use the default `go` (do not set GOTOOLCHAIN or GOSUMDB); pass `-mod=mod`. Example: `cd {wt} && go test -mod=mod -vet=off -count=1 -run '^TestX$' .`
  - You MUST verify yourself: (a) `go build ./...` succeeds with the change; (b) the demo fails with the change and passes without it (run it 3 times each way to be sure it is deterministic); (c) the existing suite passes with the change: run `cd {wt} && GOMAXPROCS=4 go test -mod=mod -p 1 -vet=off -count=1 -timeout 40m ./...` (takes 7-12 minutes; the test TestProtosRegenerate in package pb always fails in this sandbox, ignore it; remove your demo file before running the suite). Other agents share this machine, so if some other test fails, re-run just that test once or twice to rule out load-related flakiness before giving up on a change; if an existing test genuinely fails, pick a different change.
  - Keep only one change applied at a time (save it with `git diff > patch.diff`, undo with `git checkout -- .`, re-apply with `git apply patch.diff`; NEVER use `git stash` - the stash is shared between worktrees of other agents). Leave the worktree clean (no changes applied) when you finish.
  - Do not modify existing test files. Do not weaken or delete functionality wholesale (e.g. do not make a function a no-op if any ordinary use would notice immediately).
@@AVOID@@  - Your final message should be a short summary: for each change, one sentence on what it is and whether (a),(b),(c) were all confirmed. If you could only produce one verified change, say so. Finally, if while reading the code you noticed anything in the UNMODIFIED baseline that looks like a genuine violation of this property (a history, option combination or interleaving under which it would not hold), describe it in 2-4 lines at the end (untested is fine; say that it is untested).
""")
print(text.replace("@@AVOID@@", (avoid.strip("\n")+"\n") if avoid else ""))
