#!/bin/bash
# usage: dbgmut.sh <seeded-id> <PROP> [vcheck args...]  — like mutcheck.sh but with the live machinery and extra args
id=$1; p=$2; shift 2
W=/tmp/dbg-$id
rm -rf $W $W-work $W-ev; git -C /repo worktree prune
git -C /repo worktree add -q --detach $W HEAD || exit 1
git -C $W apply /verif/seeded/$id/patch.diff || exit 1
(cd /verif && ./check manifest >/dev/null; VERIF_DIR=/verif VERIF_REPO=$W VERIF_WORK=$W-work VERIF_EVIDENCE_DIR=$W-ev .work/bin/vcheck $p "$@")
git -C /repo worktree remove --force $W; rm -rf $W-work $W-ev
