#!/bin/bash
# usage: mutcheck.sh <seeded-id> <PROP> [<PROP>...]   [TIER=quick]
# Applies seeded/<id>/patch.diff in a scratch worktree of /repo (never /repo itself) and runs the
# given checks against that worktree; the verdicts go to seeded/<id>/check.log.
id=$1; shift
D=/verif/seeded/$id; W=/tmp/vmut-$id
tier=${TIER:-quick}
rm -rf $W $W-work $W-ev; git -C /repo worktree prune
git -C /repo worktree add -q --detach $W HEAD || exit 1
if ! git -C $W apply $D/patch.diff; then echo "$id: PATCH DOES NOT APPLY" | tee -a $D/check.log; git -C /repo worktree remove --force $W; exit 1; fi
for p in "$@"; do
  out=$(cd /verif && VERIF_REPO=$W VERIF_WORK=$W-work VERIF_EVIDENCE_DIR=$W-ev ./check $p --tier $tier 2>&1)
  rc=$?
  v=$(echo "$out" | grep -m1 -A3 '^VIOLATION' | tr '\n' ' ' | cut -c1-600)
  echo "== $(date -u +%FT%TZ) $id check=$p tier=$tier repo=$(git -C /repo rev-parse --short HEAD) exit=$rc :: ${v:-$(echo "$out" | tail -1)}" | tee -a $D/check.log
done
git -C /repo worktree remove --force $W; rm -rf $W-work $W-ev
