#!/bin/bash
# usage: mutcheck.sh <seeded-id> <PROP> [<PROP>...]   [TIER=quick]
# Applies seeded/<id>/patch.diff in a scratch worktree of /repo (never /repo itself) and runs the
# given checks against that worktree, from a frozen copy of the machinery; the verdicts go to
# seeded/<id>/check.log.
id=$1; shift
D=/verif/seeded/$id; W=/tmp/vmut-$id
tier=${TIER:-quick}
rm -rf $W $W-work $W-ev $W-verif; git -C /repo worktree prune
git -C /repo worktree add -q --detach $W HEAD || exit 1
if ! git -C $W apply $D/patch.diff; then echo "$id: PATCH DOES NOT APPLY" | tee -a $D/check.log; git -C /repo worktree remove --force $W; exit 1; fi
mkdir -p $W-verif
# frozen copy of the committed machinery (HEAD), so that edits in progress do not disturb the run
git -C /verif archive HEAD cmd engine shim harness tools go.mod known_findings.json | tar -x -C $W-verif
(cd $W-verif && GOFLAGS=-mod=mod GOPROXY=off GOSUMDB=off GOTOOLCHAIN=local go1.26.8 build -o vcheck ./cmd/vcheck) || { echo "$id: cannot build frozen vcheck" | tee -a $D/check.log; exit 2; }
for p in "$@"; do
  (cd $W-verif && VERIF_DIR=$W-verif VERIF_REPO=$W VERIF_WORK=$W-work VERIF_EVIDENCE_DIR=$W-ev ./vcheck $p --tier $tier > $W-out.txt 2>&1)
  rc=$?
  out=$(tr -d '\000' < $W-out.txt); rm -f $W-out.txt
  v=$(echo "$out" | grep -m1 -A3 '^VIOLATION' | tr '\n' ' ' | cut -c1-600)
  echo "== $(date -u +%FT%TZ) $id check=$p tier=$tier repo=$(git -C /repo rev-parse --short HEAD) verif=$(git -C /verif rev-parse --short HEAD) exit=$rc :: ${v:-$(echo "$out" | tail -1)}" | tee -a $D/check.log
done
git -C /repo worktree remove --force $W; rm -rf $W-work $W-ev $W-verif
