#!/usr/bin/env python3
"""Prints the markdown table of seeded changes and which checks catch them (from seeded/*/check.log),
and refreshes detected_by in every meta.json."""
import json,glob,os,re
rows=[]
for d in sorted(glob.glob('/verif/seeded/*')):
    id=os.path.basename(d)
    meta=json.load(open(d+'/meta.json')) if os.path.exists(d+'/meta.json') else {}
    last={}
    if os.path.exists(d+'/check.log'):
        for l in open(d+'/check.log'):
            m=re.match(r'== (\S+) (\S+) check=(\S+) tier=(\S+) repo=(\S+)(?: verif=\S+)? exit=(\d+) :: (.*)',l)
            if m:
                _,_,chk,tier,repo,rc,msg=m.groups()
                cls=re.search(r'class=(\S+)',msg)
                last[chk]=(int(rc),cls.group(1) if cls else '',tier)
    caught=[f"{c} ({v[1]})" for c,v in last.items() if v[0]==1]
    missed=[c for c,v in last.items() if v[0]==0]
    if last:
        meta['detected_by']='; '.join(caught) if caught else 'NOT DETECTED by '+', '.join(missed)
        json.dump(meta,open(d+'/meta.json','w'),indent=1)
    elif meta.get('detected_by'):
        caught=[meta['detected_by']]
    need=(meta.get('needs_to_manifest','') or '').replace('|','/').replace('\n',' ')[:150]
    note=meta.get('final_tree_note','')
    last_col=', '.join(missed) or ''
    if note:
        last_col=(last_col+' — ' if last_col else '')+note.replace('|','/')
    rows.append(f"| {id} | {meta.get('property','')} | {need} | {', '.join(caught) or '—'} | {last_col} |")
print("| id | property | needs to manifest | caught by (failure class) | quick checks that stay green |")
print("|---|---|---|---|---|")
print("\n".join(rows))
