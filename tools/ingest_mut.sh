#!/bin/bash
# usage: ingest_mut.sh <PROP> <N> <detected-by> "<needs>"   -- copies /tmp/mut/out-PROP/N into seeded/PROP-N
set -e
P=$1; N=$2; DET=$3; NEEDS=$4
D=/verif/seeded/$P-$N
mkdir -p $D
cp /tmp/mut/out-$P/$N/patch.diff $D/patch.diff
for f in /tmp/mut/out-$P/$N/*_test.go /tmp/mut/out-$P/$N/demo*; do [ -e "$f" ] && cp -r "$f" $D/ ; done
[ -f /tmp/mut/out-$P/$N/notes.md ] && cp /tmp/mut/out-$P/$N/notes.md $D/notes.md
python3 - "$P" "$N" "$DET" "$NEEDS" <<'PY'
import json,sys
p,n,det,needs=sys.argv[1:5]
json.dump({"property":p,"origin":"independent sub-agent given only the property text and a scratch worktree","needs_to_manifest":needs,
 "detected_by":det,"verified":"pending (tools/verify_seeded.sh records the outcome in verify.log)"},open('/verif/seeded/%s-%s/meta.json'%(p,n),'w'),indent=1)
PY
echo ingested $D
