import json,sys
pid=sys.argv[1]
for l in open('/verif/properties.jsonl'):
    p=json.loads(l)
    if p['id']==pid: break
wt=f"/tmp/mut/rv-{pid}"
out=f"/tmp/mut/rvout-{pid}"
print(f"""You are reviewing the Go key-value store dgraph-io/badger (v4) against ONE semantic property. A scratch git worktree of the repository is at {wt} (your own copy; work ONLY there and in {out}; never touch /repo or /verif, and do not read anything under /verif).

The property:

  Title: {p['title']}
  Statement: {p['statement']}
  Holds over: {p['quantifier']['text']}
  Code it is anchored in: {', '.join(p['anchors'].get('files',[]))}
  Mechanisms: {'; '.join(m['name']+' ('+m.get('where','')+')' for m in p['anchors'].get('mechanism',[]))}

Your task: find histories, option combinations, interleavings, crash points or inputs under which the UNMODIFIED code in the worktree violates this property (genuine defects of the code as it is, not hypothetical changes). Read the anchored code and what it calls, think about unusual but legal use (non-default options, managed mode, concurrent readers during maintenance operations, re-opening with other options, value-log GC, long-lived iterators or transactions, crashes between two steps, boundary sizes), and for every candidate write a small Go test (package badger or the package concerned, internal functions may be used to force a specific flush / compaction / interleaving deterministically) that FAILS on the unmodified code because of the violation. Run only your own tests (`cd {wt} && go test -mod=mod -vet=off -count=1 -run '^TestName$' .`); do NOT run the whole test suite. Use the default `go`, offline sandbox (do not set GOTOOLCHAIN or GOSUMDB). When you need to stop a run of yours kill it by PID only.

Write into {out}/ : one file per confirmed finding `finding_<n>_test.go` (the failing test) plus `findings.md` with, per finding: the shortest history that shows it, why it violates the property, and the exact failing output. Also list (clearly marked UNCONFIRMED) candidates you believe in but could not turn into a failing test. Do not report things the property does not promise, and do not report documented preconditions being ignored (say which documentation you relied on). Spend your effort on depth: two or three well-demonstrated findings are worth more than a long list of guesses. If you find nothing, say so and list what you examined. Leave the worktree without your test files when you finish. Your final message: a short summary of each confirmed finding (one paragraph each) and the unconfirmed candidates.
""")
