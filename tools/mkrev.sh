#!/bin/bash
# reverted-fix "mutations": each fix commit reversed is a change that re-introduces a defect the suite does not notice
cd /verif
i=0
while read h prop what; do
  i=$((i+1)); id=R$(printf %02d $i)-$prop
  mkdir -p seeded/$id
  # patches that no longer apply to HEAD (later fixes touched the same lines) were rebased by hand and are kept
  if [ ! -f seeded/$id/patch.diff ] || git -C /repo apply --check /verif/seeded/$id/patch.diff 2>/dev/null; then :; fi
  if ! { [ -f seeded/$id/patch.diff ] && git -C /repo apply --check /verif/seeded/$id/patch.diff 2>/dev/null; }; then git -C /repo diff $h $h~1 > seeded/$id/patch.diff; fi
  python3 - "$id" "$prop" "$h" "$what" <<'PY'
import json,sys
id,prop,h,what=sys.argv[1:5]
json.dump({"property":prop,"origin":"own: reversal of fix commit %s (re-introduces the defect; the pinned suite passed with the defect present)"%h,
 "needs_to_manifest":what,"detected_by":"pending","verified":"by construction: the pinned suite passed on the tree before the fix commit; the check's replay demonstrates the defect"},open('/verif/seeded/%s/meta.json'%id,'w'),indent=1)
PY
  echo $id
done <<'L'
d55a703 C36 managed write batch flushed again after SetDiscardTs: assertion ts >= lastCleanupTs kills the process
62925c9 C08 crash between create and ftruncate of a .mem/.vlog file leaves a zero-length file; Open fails
ec60023 C10 SyncWrites: power loss after flush appended the table to the MANIFEST but before the directory entry was durable
f65571e C10 SyncWrites: directory entry of a new .vlog/.mem never fsynced; acknowledged value-log write lost
fcdec05 C30 two Sequence objects on one key: lease transaction conflict, retry serves numbers from the unstored lease
d55465d C32 subscriber prefix continuing with 0xFF matches a shorter key (trie lookup on key with version suffix)
e5686d1 C27 managed write batch: same key and version written twice with another version in between
073914f C28 in-memory mode, value size exactly equal to the value threshold
7437c10 C28 transaction filled to within a few bytes of maxBatchSize with a multi-digit commit timestamp
f9e2e6e C38 StreamWriter.Flush while a commit is between its write and doneCommit
865469e C25 a transaction commits between the creation of two stream producers' transactions
e42781a C29 a commit passes the blockWrites check, DropPrefix blocks writes before the request is sent
f93ab27 C12 base level over target, big L0 table from a first L0->L0 compaction holding the value, delete, second L0->L0 compaction
c46bcff C29 crash inside DropAll after the memtable WALs were removed and before the tables were dropped
551bbf3 C29 the last level emptied by DropPrefix (or shrunk by compacted deletes, or BaseLevelSize enlarged on re-open) while the level above holds a key, then a delete of that key and an L0 compaction
890f37e C29 an iterator opened before DropPrefix is still open when the process crashes after the drop returned
e08cfb2 C26 PrepareIncremental on a database with tables in level 0 and compactors configured
444f237 C27 NewWriteBatchAt(T) with Set(k) followed by SetEntryAt/DeleteAt(k, T)
df0ab5d C27 NewManagedWriteBatch with a Set without a version next to a SetEntryAt in the same internal transaction
66e3f39 C08 ValueThreshold 1 (or any threshold not above the number of digits of the commit timestamp), then a crash
0bb15be C38 DB.Load of a backup cut in the middle, then any transaction
ddb7395 C32 Subscribe with an unparsable pattern, then more than 1000 matching commits
d79e38c C32 a subscriber while value-log GC rewrites a file or a merge operator stores its fold
0a0d6fa C37 InMemory database and values exactly as large as the value threshold (many in one transaction; one through an incremental StreamWriter)
0f2d549 C11 a backup restored through KVLoader instead of DB.Load, then a commit
7f35a71 C28 InMemory database and a value over the value threshold but shorter than 1 KiB
de49e21 C28 a banned namespace and a key of exactly NamespaceOffset+8 bytes
3d68e02 C17 a MANIFEST cut inside a change set that is longer than the rest of the file
1f81c9a C23 EncryptionKeyRotationDuration longer than the time since 1970 on a new database
f91e4b0 C23 a read-only open after the data-key rotation interval has elapsed
ae7c466 C31 a merge function that returns one of its arguments and more than 100 un-merged versions
9cf37dd C30 DetectConflicts=false and two Sequence objects leasing at the same time
L
