#!/bin/bash
# Confirms each seeded change in a scratch worktree: builds, demo FAILS with the change, existing suite
# passes with it, demo PASSES without it.  usage: verify_seeded.sh <seeded-id>...   (slow: full suite)
export GOFLAGS=-mod=mod GOPROXY=off
for id in "$@"; do
  D=/verif/seeded/$id; W=/tmp/vseed-$id
  rm -rf $W; git -C /repo worktree add -q --detach $W HEAD || exit 1
  {
    echo "== $id @ $(git -C /repo rev-parse --short HEAD) $(date -u +%FT%TZ)"
    cd $W
    pkg=$(cat $D/pkg 2>/dev/null || echo .)
    demo=$(ls $D/*_test.go 2>/dev/null | head -1)
    run=$(grep -o 'func Test[A-Za-z0-9_]*' $demo | sed 's/func //' | paste -sd'|')
    cp $demo $W/$pkg/zz_demo_test.go
    echo "-- demo without change:"; GOMAXPROCS=4 go test -vet=off -count=1 -timeout 20m -run "^($run)\$" $pkg 2>&1 | tail -3
    git apply $D/patch.diff && echo "-- patch applied" || echo "-- PATCH DOES NOT APPLY"
    go build ./... && echo "-- build ok"
    echo "-- demo with change:"; GOMAXPROCS=4 go test -vet=off -count=1 -timeout 20m -run "^($run)\$" $pkg 2>&1 | tail -3
    rm -f $W/$pkg/zz_demo_test.go
    echo "-- suite with change:"; GOMAXPROCS=4 go test -p 1 -vet=off -count=1 -timeout 40m ./... 2>&1 | grep -E "^(ok|FAIL|--- FAIL|panic)" | head -30
  } > $D/verify.log 2>&1
  cd /; git -C /repo worktree remove --force $W
  echo "verified $id: $(grep -c '^ok' $D/verify.log) ok lines"
done
