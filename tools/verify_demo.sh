#!/bin/bash
# Demo-only confirmation (the suite part of verify_seeded2.sh is kept as recorded): demo passes without
# the change and fails with it.  usage: verify_demo.sh <seeded-id>...
export GOFLAGS=-mod=mod GOPROXY=off
for id in "$@"; do
  D=/verif/seeded/$id; W=/tmp/vdemo-$id
  rm -rf $W; git -C /repo worktree add -q --detach $W HEAD || exit 1
  {
    echo "== demo-only re-run $id @ $(git -C /repo rev-parse --short HEAD) $(date -u +%FT%TZ)"
    cd $W
    pkg=$(cat $D/pkg 2>/dev/null || echo .)
    demo=$(ls $D/*_test.go 2>/dev/null | head -1)
    run=$(grep -o 'func Test[A-Za-z0-9_]*' $demo | sed 's/func //' | paste -sd'|')
    cp $demo $W/$pkg/zz_demo_test.go
    echo "-- demo without change:"; GOMAXPROCS=4 go test -vet=off -count=1 -timeout 20m -run "^($run)\$" $pkg 2>&1 | tail -3
    git apply $D/patch.diff && echo "-- patch applied" || echo "-- PATCH DOES NOT APPLY"
    go build ./... && echo "-- build ok"
    echo "-- demo with change:"; GOMAXPROCS=4 go test -vet=off -count=1 -timeout 20m -run "^($run)\$" $pkg 2>&1 | tail -3
    [ -n "$EXTRA" ] && { echo "-- extra: go test -run '$EXTRA' . (with change)"; GOMAXPROCS=4 go test -vet=off -count=3 -timeout 20m -run "$EXTRA" . 2>&1 | tail -3; }
  } >> $D/verify.log 2>&1
  cd /; git -C /repo worktree remove --force $W
  echo "demo-verified $id"; tail -12 $D/verify.log | grep -E "^(ok|FAIL|--)" | tr '\n' ' '; echo
done
