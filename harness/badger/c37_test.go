package badger

// C37 differential cases around the value threshold (E-enum): the same history on an on-disk and on
// an InMemory database.  In memory every accepted value lives in the LSM tree, also one that is
// exactly as large as (or larger than) the value threshold and would be a 12-byte pointer on disk.
//   txn      one transaction of n values of size s (s around the threshold): both databases accept
//            or refuse it, and when accepted read every value back; the process must survive
//   stream   PrepareIncremental + Write of one KV of size s + Flush: as above

import (
	"bytes"
	"fmt"

	"github.com/dgraph-io/badger/v4/pb"
	"github.com/dgraph-io/ristretto/v2/z"
)

func init() {
	registerEnum("c37thr", func(e *enumCtx) {
		const thr = 8 << 10
		run := func(inMemory bool, kind string, n, size int) (string, error) {
			dir := ""
			if !inMemory {
				dir = freshDir(e.j)
				defer removeAll(dir)
			}
			o := smallOpts(dir)
			o.ValueThreshold = thr
			o.ValueLogFileSize = 4 << 20
			o.NumLevelZeroTables, o.NumLevelZeroTablesStall = 1<<20, 1<<21
			if inMemory {
				o.InMemory, o.Dir, o.ValueDir = true, "", ""
			}
			db := mustOpen(o)
			defer db.Close()
			v := bytes.Repeat([]byte("v"), size)
			switch kind {
			case "txn":
				txn := db.NewTransaction(true)
				defer txn.Discard()
				for i := 0; i < n; i++ {
					if err := txn.Set([]byte(fmt.Sprintf("key%03d", i)), v); err != nil {
						return "refused", err
					}
				}
				if err := txn.Commit(); err != nil {
					return "refused", err
				}
			case "stream":
				sw := db.NewStreamWriter()
				if err := sw.PrepareIncremental(); err != nil {
					return "refused", err
				}
				buf := z.NewBuffer(1<<10, "c37")
				for i := 0; i < n; i++ {
					KVToBuffer(&pb.KV{Key: []byte(fmt.Sprintf("key%03d", i)), Value: v, Version: 5, StreamId: 1}, buf)
				}
				err := sw.Write(buf)
				_ = buf.Release()
				if err != nil {
					sw.Cancel()
					return "refused", err
				}
				if err := sw.Flush(); err != nil {
					return "refused", err
				}
			}
			bad := ""
			_ = db.View(func(txn *Txn) error {
				for i := 0; i < n; i++ {
					it, err := txn.Get([]byte(fmt.Sprintf("key%03d", i)))
					if err != nil {
						bad = fmt.Sprintf("key%03d: %v", i, err)
						return nil
					}
					got, _ := it.ValueCopy(nil)
					if !bytes.Equal(got, v) {
						bad = fmt.Sprintf("key%03d reads %d bytes, written %d", i, len(got), len(v))
						return nil
					}
				}
				return nil
			})
			if bad != "" {
				return "wrong:" + bad, nil
			}
			return "ok", nil
		}
		for _, kind := range []string{"txn", "stream"} {
			for _, size := range []int{thr - 1, thr, thr + 1} {
				for _, n := range []int{1, 8, 30} {
					kind, size, n := kind, size, n
					e.do(fmt.Sprintf("%s/n%d/size%d", kind, n, size), func() (string, string) {
						disk, derr := run(false, kind, n, size)
						mem, merr := run(true, kind, n, size)
						if mem == "ok" || (mem == "refused" && merr != nil) {
							// accepted and read back, or refused with an error: both are legal for the
							// InMemory database (its value limit is the threshold); what is not legal is
							// dying, or accepting and returning something else
							if disk != "ok" && disk != "refused" {
								return "threshold-disk", fmt.Sprintf("on disk: %s (%v)", disk, derr)
							}
							return "", ""
						}
						return "inmemory-differs", fmt.Sprintf("%s of %d values of %d bytes (threshold %d): on disk %s (%v), in memory %s (%v)", kind, n, size, thr, disk, derr, mem, merr)
					})
				}
			}
		}
	})
}
