package badger

// C15 concurrent part: value-log GC rewrite phases interleaved with an iterator opened mid-GC
// and with delete + flush + compaction of the key being rewritten.

import (
	"fmt"

	"github.com/dgraph-io/badger/v4/vshim/sched"
)

type c15State struct {
	delBeforeGC     bool
	gcRunning       bool
	compactDuringGC bool
	origA           string
	iterVal         string
	iterSaw         bool
	iterErr         error
	deleted         bool
	gcErr           error
	snapVal         string
	snapRead        bool
	newA            string
}

func init() {
	registerSched(&schedScenario{
		name:   "c15gc",
		points: []string{"op", "gc.scanned", "gc.writtenback", "gc.predelete", "gc.deferred", "compact.picked", "compact.manifest"},
		setup: func(x *schedExec) {
			o := smallOpts(x.dir)
			o.ValueLogMaxEntries = 1
			o.NumLevelZeroTables = 1
			o.ValueThreshold = 64
			x.db = mustOpen(o)
			st := &c15State{origA: string(val("A-orig-", 200))}
			put := func(k, v string) {
				if err := x.db.Update(func(txn *Txn) error { return txn.Set([]byte(k), []byte(v)) }); err != nil {
					panic(err)
				}
			}
			if x.j.Str("variant", "iter") == "delete-deep" {
				// the last level holds more than BaseLevelSize of keys that overlap nothing (inline
				// values), so the base level is the one ABOVE it: a, b, c and later the delete marker of
				// a are compacted into a level that is not the last one
				for i := 0; i < 160; i++ {
					put(fmt.Sprintf("z%03d", i), string(val("Z", 60)))
				}
				lsmFlush(x.db)
				runOnceAs(x.db, 0)
				if t := x.db.lc.levelTargets(); t.baseLevel == len(x.db.lc.levels)-1 {
					panic(fmt.Sprintf("c15gc delete-deep: the base level is still the last level (last level %d bytes)", x.db.lc.lastLevel().getTotalSize()))
				}
			}
			put("a", st.origA)
			put("b", string(val("B-orig-", 200)))
			put("c", "inline")
			lsmFlush(x.db)
			runOnceAs(x.db, 0) // a,b,c now live in the last level; vlog files 1,2 sealed
			x.state = st
		},
		threads: func(x *schedExec) []sched.Thread {
			st := x.state.(*c15State)
			gc := sched.Thread{Name: "GC", Body: func() {
				x.s.Point("op")
				x.db.vlog.filesLock.RLock()
				fids := x.db.vlog.sortedFids()
				x.db.vlog.filesLock.RUnlock()
				x.db.vlog.discardStats.Update(fids[0], 1<<30)
				st.delBeforeGC = st.deleted // was the delete acknowledged before the GC call started?
				st.gcRunning = true
				st.gcErr = x.db.RunValueLogGC(0.01)
				st.gcRunning = false
			}}
			iter := sched.Thread{Name: "I", Body: func() {
				x.s.Point("op")
				txn := x.db.NewTransaction(false)
				defer txn.Discard()
				o := DefaultIteratorOptions
				o.PrefetchValues = false
				it := txn.NewIterator(o)
				defer it.Close()
				it.Seek([]byte("a"))
				if !it.Valid() || string(it.Item().Key()) != "a" {
					return
				}
				item := it.Item()
				st.iterSaw = true
				x.s.Point("op")
				x.s.Point("op")
				v, err := item.ValueCopy(nil)
				st.iterVal, st.iterErr = string(v), err
			}}
			del := sched.Thread{Name: "D", Body: func() {
				x.s.Point("op")
				if err := x.db.Update(func(txn *Txn) error { return txn.Delete([]byte("a")) }); err != nil {
					panic(err)
				}
				st.deleted = true
				// a finished read at the new timestamp lets the discard watermark reach the tombstone
				_ = x.db.View(func(txn *Txn) error { return nil })
				x.s.Point("op")
				x.flushBlocking()
				x.s.Point("op")
				if x.hooks == nil {
					x.hooks = map[string]func(){}
				}
				// the discard decisions are taken while the output tables are built
				x.hooks["compact.built"] = func() { st.compactDuringGC = st.gcRunning }
				runOnceAs(x.db, 0)
			}}
			// a snapshot opened before a newer version of key a is committed, flushed and compacted
			// to the last level while the GC rewrite may be in flight: the snapshot must keep
			// reading the old version (compaction may only discard below the real read watermark)
			snap := sched.Thread{Name: "S", Body: func() {
				x.s.Point("op")
				txn := x.db.NewTransaction(false)
				defer txn.Discard()
				st.newA = string(val("A-new-", 200))
				if err := x.db.Update(func(t2 *Txn) error { return t2.Set([]byte("a"), []byte(st.newA)) }); err != nil {
					panic(err)
				}
				x.s.Point("op")
				x.flushBlocking()
				x.s.Point("op")
				runOnceAs(x.db, 0)
				x.s.Point("op")
				st.snapVal = getStr(txn, "a")
				st.snapRead = true
			}}
			switch x.j.Str("variant", "iter") {
			case "iter":
				return []sched.Thread{gc, iter}
			case "snapshot":
				return []sched.Thread{gc, snap}
			}
			return []sched.Thread{gc, del}
		},
		check: func(x *schedExec) (string, string, string) {
			st := x.state.(*c15State)
			if st.gcErr != nil && st.gcErr != ErrNoRewrite && st.gcErr != ErrRejected {
				return "", fmt.Sprintf("RunValueLogGC: %v", st.gcErr), "gc-error"
			}
			if st.iterSaw && (st.iterErr != nil || st.iterVal != st.origA) {
				return "", fmt.Sprintf("iterator item of key a, held in an open transaction across the GC, reads %q (err %v) instead of its 200-byte value", shortVal(st.iterVal), st.iterErr), "iterator-item-unreadable"
			}
			if st.snapRead && st.snapVal != st.origA {
				return "", fmt.Sprintf("a snapshot opened before key a was overwritten reads %q after flush + compaction (during/after a value-log GC), it must still read the old 200-byte value", shortVal(st.snapVal)), "snapshot-read-changed"
			}
			txn := x.db.NewTransaction(false)
			defer txn.Discard()
			a, b := getStr(txn, "a"), getStr(txn, "b")
			if st.newA != "" {
				if a != st.newA {
					return "", fmt.Sprintf("key a reads %q after overwrite + GC", shortVal(a)), "value-changed"
				}
				a = st.origA // the remaining checks compare against the original
			}
			if st.deleted && a != "<nil>" {
				// F12 (known): the tombstone is compacted away AFTER the rewrite finished, while the
				// written-back old version sits above it.  A tombstone dropped WHILE the rewrite is in
				// flight is what the gcActive clamp (#2286) must prevent.
				class := "deleted-key-resurrected/tombstone-dropped-after-gc"
				if st.compactDuringGC && !st.delBeforeGC {
					// exactly what the gcActive clamp (#2286) promises to prevent
					class = "deleted-key-resurrected/tombstone-newer-than-gc-start-dropped-during-gc"
				}
				return "", fmt.Sprintf("key a was deleted (commit acknowledged; before the GC call: %v; compaction ran during the rewrite: %v) but reads %q after GC + compaction", st.delBeforeGC, st.compactDuringGC, shortVal(a)), class
			}
			if !st.deleted && a != st.origA {
				return "", fmt.Sprintf("key a reads %q after GC", shortVal(a)), "value-changed"
			}
			if b != string(val("B-orig-", 200)) {
				return "", fmt.Sprintf("key b reads %q after GC", shortVal(b)), "value-changed"
			}
			return fmt.Sprintf("saw=%v gc=%v", st.iterSaw, st.gcErr), "", ""
		},
	})
}
