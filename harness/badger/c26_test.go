package badger

// C26 — StreamWriter builds exactly the streamed database (E-enum).
//
// Stream contents: every non-empty subset of 5 user keys x 3 version patterns, split into one or
// two streams with disjoint key ranges at every key boundary; each stream cut into Write batches
// by 3 batching patterns, batches of the two streams interleaved in 4 ways (including both
// streams in one buffer), done markers absent / with the last batch / in a separate buffer;
// values at threshold-1 / threshold / threshold+1, delete markers, user meta, expiry; Prepare and
// PrepareIncremental over three pre-existing layouts; plain / encrypted / compressed / in-memory;
// table size so small that a stream spans several tables.

import (
	"fmt"
	"os"
	"runtime"
	"sort"
	"strings"
	"testing/synctest"
	"time"

	"github.com/dgraph-io/badger/v4/options"
	"github.com/dgraph-io/badger/v4/pb"
	"github.com/dgraph-io/ristretto/v2/z"
)

type c26KV struct {
	key   string
	ver   uint64
	val   string
	del   bool
	umeta byte
	exp   uint64
}

var c26Keys = []string{"a", "ab", "b", "c", "d"}

func c26Contents(mask, pattern int) []c26KV {
	var out []c26KV
	n := 0
	for i, k := range c26Keys {
		if mask&(1<<i) == 0 {
			continue
		}
		vers := []uint64{11, 10}
		switch pattern {
		case 1:
			vers = []uint64{11}
		case 2:
			if i%2 == 0 {
				vers = []uint64{10}
			}
		}
		for _, v := range vers {
			n++
			kv := c26KV{key: k, ver: v, umeta: byte(n)}
			kv.val = string(val(fmt.Sprintf("%s@%d|", k, v), 63+n%3)) // threshold-1, threshold, threshold+1
			if n%5 == 4 {
				kv.del, kv.val, kv.umeta = true, "", 0
			}
			if n%4 == 2 {
				kv.exp = 1<<40 + uint64(n)
			}
			out = append(out, kv)
		}
	}
	return out
}

func c26Opts(dir string, cfg int) Options {
	o := smallOpts(dir)
	o.BaseTableSize = 300
	o.TableSizeMultiplier = 1
	o.BaseLevelSize = 2 << 10
	o.MaxLevels = 4
	o.NumLevelZeroTables = 5
	o.NumLevelZeroTablesStall = 10
	o.BlockSize = 128
	o.ValueThreshold = 64
	o.NumVersionsToKeep = 100
	o.ValueLogMaxEntries = 1 // the value log rotates between the requests (streams) of one Write call
	switch cfg {
	case 1:
		o.EncryptionKey = []byte("0123456789abcdef")
		o.IndexCacheSize = 1 << 20
		o.BlockCacheSize = 1 << 20
	case 2:
		o.Compression = options.Snappy
		o.BlockCacheSize = 1 << 20
	case 3:
		o.InMemory, o.Dir, o.ValueDir = true, "", ""
		o.ValueThreshold = 1 << 10
	}
	return o
}

func c26Buffer(kvs []c26KV, stream uint32, done bool) *z.Buffer {
	buf := z.NewBuffer(1<<10, "c26")
	for _, kv := range kvs {
		p := &pb.KV{Key: []byte(kv.key), Value: []byte(kv.val), UserMeta: []byte{kv.umeta}, Version: kv.ver, ExpiresAt: kv.exp, StreamId: stream}
		if kv.del {
			p.Meta = []byte{bitDelete}
			p.Value = nil
		}
		KVToBuffer(p, buf)
	}
	if done {
		KVToBuffer(&pb.KV{StreamId: stream, StreamDone: true}, buf)
	}
	return buf
}

// c26Batches cuts a stream into contiguous batches.
func c26Batches(kvs []c26KV, pattern int) [][]c26KV {
	if len(kvs) == 0 {
		return nil
	}
	switch pattern {
	case 0:
		return [][]c26KV{kvs}
	case 1: // singletons, at most 3 batches
		var out [][]c26KV
		for i := range kvs {
			if len(out) == 2 {
				out = append(out, kvs[i:])
				break
			}
			out = append(out, kvs[i:i+1])
		}
		return out
	default: // two halves (a key's versions may straddle the cut)
		h := (len(kvs) + 1) / 2
		if h == len(kvs) {
			return [][]c26KV{kvs}
		}
		return [][]c26KV{kvs[:h], kvs[h:]}
	}
}

func c26Expect(pre, streamed []c26KV) map[string][]verEntry {
	out := map[string][]verEntry{}
	all := append(append([]c26KV{}, pre...), streamed...)
	sort.SliceStable(all, func(i, j int) bool {
		if all[i].key != all[j].key {
			return all[i].key < all[j].key
		}
		return all[i].ver > all[j].ver
	})
	for _, kv := range all {
		out[kv.key] = append(out[kv.key], verEntry{Ver: kv.ver, Val: kv.val, Deleted: kv.del, UMeta: kv.umeta, Expires: kv.exp})
	}
	return out
}

func c26Dump(db *DB) map[string][]verEntry {
	d := dumpAllInternal(db)
	return d
}

func c26DumpStr(d map[string][]verEntry) string {
	ks := make([]string, 0, len(d))
	for k := range d {
		ks = append(ks, k)
	}
	sort.Strings(ks)
	s := ""
	for _, k := range ks {
		s += fmt.Sprintf("%q:", k)
		for _, e := range d[k] {
			if e.Deleted {
				s += fmt.Sprintf("[%d del]", e.Ver)
			} else {
				s += fmt.Sprintf("[%d %s um%d exp%d]", e.Ver, shortVal(e.Val), e.UMeta, e.Expires)
			}
		}
		s += " "
	}
	return s
}

func init() {
	registerEnum("c26sw", func(e *enumCtx) {
		e.journal = true
		full := e.j.Bool("full", false)
		type combo struct{ batching, interleave, done, cfg int }
		var combos []combo
		for b := 0; b < 3; b++ {
			for il := 0; il < 4; il++ {
				for d := 0; d < 3; d++ {
					for c := 0; c < 4; c++ {
						combos = append(combos, combo{b, il, d, c})
					}
				}
			}
		}
		caseNo := 0
		for mask := 1; mask < 1<<len(c26Keys); mask++ {
			for pattern := 0; pattern < 3; pattern++ {
				content := c26Contents(mask, pattern)
				// split points: 0 = a single stream; otherwise stream 1 = entries before the first
				// entry of the s-th distinct key
				var keyStarts []int
				for i := range content {
					if i == 0 || content[i].key != content[i-1].key {
						keyStarts = append(keyStarts, i)
					}
				}
				for si := 0; si < len(keyStarts); si++ {
					for mode := 0; mode < 5; mode++ {
						var cs []combo
						if full {
							cs = combos
						} else {
							caseNo++
							cs = []combo{combos[(caseNo*7)%len(combos)], combos[(caseNo*7+53)%len(combos)]}
						}
						for _, cb := range cs {
							content, split, mode, cb := content, keyStarts[si], mode, cb
							e.do(fmt.Sprintf("m%02x/p%d/split%d/mode%d/b%d-i%d-d%d-c%d", mask, pattern, split, mode, cb.batching, cb.interleave, cb.done, cb.cfg), func() (string, string) {
								return c26Run(e, content, split, mode, cb.batching, cb.interleave, cb.done, cb.cfg)
							})
						}
					}
				}
			}
		}
	})
}

func c26Run(e *enumCtx, content []c26KV, split, mode, batching, interleave, done, cfg int) (string, string) {
	if cfg == 3 && mode >= 2 {
		if mode == 4 {
			return "", "" // in-memory: as mode 0
		}
		mode = mode % 2 // in-memory: no pre-existing on-disk layouts; prepare / incremental on empty
	}
	dir := freshDir(e.j)
	defer removeAll(dir)
	o := c26Opts(dir, cfg)
	db := mustOpen(o)
	defer func() {
		if db != nil {
			_ = db.Close()
		}
	}()
	var pre []c26KV
	writePre := func(k string) string {
		var kv c26KV
		err := db.Update(func(txn *Txn) error {
			kv = c26KV{key: k, val: "old-" + k, umeta: 0x70}
			return txn.SetEntry(NewEntry([]byte(k), []byte(kv.val)).WithMeta(kv.umeta))
		})
		if err != nil {
			return err.Error()
		}
		kv.ver = db.orc.nextTs() - 1
		pre = append(pre, kv)
		return ""
	}
	// mode 0: Prepare on a non-empty DB (content dropped); 1: PrepareIncremental on an empty DB;
	// 2: incremental over data in the last level only; 3: incremental over L0 + last level (Flatten)
	switch mode {
	case 0, 4:
		if s := writePre("zz"); s != "" {
			return "c26-setup", s
		}
		if mode == 4 {
			// mode 4: as mode 0, but the old content lives in a table that has been read (its index
			// is cached under the table's id; Prepare restarts the table ids)
			lsmFlushNoBubble(db)
			_ = db.View(func(txn *Txn) error { _, _ = txn.Get([]byte("zz")); return nil })
		}
		pre = nil // Prepare drops everything
	case 2, 3:
		for _, k := range []string{"a", "bb", "zz"} {
			if s := writePre(k); s != "" {
				return "c26-setup", s
			}
		}
		lsmFlushNoBubble(db)
		if err := db.Flatten(1); err != nil {
			return "c26-setup", "flatten: " + err.Error()
		}
		if mode == 3 {
			if s := writePre("c"); s != "" {
				return "c26-setup", s
			}
			lsmFlushNoBubble(db)
		}
	}
	// Let the oracle's watermark goroutines catch up with the commits above.  (If the last commit's
	// Done mark is still unprocessed when StreamWriter.Flush stops the oracle, Flush never returns:
	// that is a liveness defect covered by the C38 check, not part of this property.)
	for i := 0; db.orc.txnMark.DoneUntil()+1 < db.orc.nextTs() && i < 1000000; i++ {
		runtime.Gosched()
	}
	sw := db.NewStreamWriter()
	var err error
	if mode == 0 || mode == 4 {
		err = sw.Prepare()
	} else {
		err = sw.PrepareIncremental()
	}
	if err != nil {
		return "streamwriter-prepare", err.Error()
	}
	s1, s2 := content, []c26KV(nil)
	if split > 0 {
		s1, s2 = content[:split], content[split:]
	}
	b1, b2 := c26Batches(s1, batching), c26Batches(s2, batching)
	type wr struct {
		stream uint32
		kvs    []c26KV
		last   bool
	}
	var order []wr
	for i, b := range b1 {
		order = append(order, wr{1, b, i == len(b1)-1})
	}
	var o2 []wr
	for i, b := range b2 {
		o2 = append(o2, wr{2, b, i == len(b2)-1})
	}
	switch interleave {
	case 0: // stream 1 then stream 2
		order = append(order, o2...)
	case 1: // stream 2 first
		order = append(o2, order...)
	case 2, 3: // alternating (3: each pair of batches shares one buffer)
		var out []wr
		for i := 0; i < len(order) || i < len(o2); i++ {
			if i < len(order) {
				out = append(out, order[i])
			}
			if i < len(o2) {
				out = append(out, o2[i])
			}
		}
		order = out
	}
	write := func(buf *z.Buffer) error {
		defer buf.Release()
		return sw.Write(buf)
	}
	if interleave == 3 {
		// both streams in the same buffers: merge consecutive writes of different streams
		for i := 0; i < len(order); i += 2 {
			buf := z.NewBuffer(1<<10, "c26")
			for _, w := range order[i:min(i+2, len(order))] {
				for _, kv := range w.kvs {
					p := &pb.KV{Key: []byte(kv.key), Value: []byte(kv.val), UserMeta: []byte{kv.umeta}, Version: kv.ver, ExpiresAt: kv.exp, StreamId: w.stream}
					if kv.del {
						p.Meta, p.Value = []byte{bitDelete}, nil
					}
					KVToBuffer(p, buf)
				}
			}
			for _, w := range order[i:min(i+2, len(order))] {
				if w.last && done == 1 {
					KVToBuffer(&pb.KV{StreamId: w.stream, StreamDone: true}, buf)
				}
			}
			if err := write(buf); err != nil {
				sw.Cancel()
				return "streamwriter-write", err.Error()
			}
		}
	} else {
		for _, w := range order {
			if err := write(c26Buffer(w.kvs, w.stream, w.last && done == 1)); err != nil {
				sw.Cancel()
				return "streamwriter-write", err.Error()
			}
			if w.last && done == 2 {
				if err := write(c26Buffer(nil, w.stream, true)); err != nil {
					sw.Cancel()
					return "streamwriter-write", err.Error()
				}
			}
		}
	}
	if done == 2 && interleave == 3 {
		for _, st := range []uint32{1, 2} {
			if st == 2 && len(s2) == 0 {
				continue
			}
			if err := write(c26Buffer(nil, st, true)); err != nil {
				sw.Cancel()
				return "streamwriter-write", err.Error()
			}
		}
	}
	if err := sw.Flush(); err != nil {
		return "streamwriter-flush", err.Error()
	}
	want := c26DumpStr(c26Expect(pre, content))
	if got := c26DumpStr(c26Dump(db)); got != want {
		return "streamwriter-content", fmt.Sprintf("after Flush the database holds %s\n  streamed (+ pre-existing): %s\n  levels: %s", got, want, shapeString(db))
	}
	x := &seqExec{db: db}
	if c, d := lsmCheckStructure(x); c != "" {
		return "streamwriter-" + c, d
	}
	e.r.AddExtra("tables", int64(len(db.Tables())))
	var maxVer uint64
	for _, kv := range append(append([]c26KV{}, pre...), content...) {
		if kv.ver > maxVer {
			maxVer = kv.ver
		}
	}
	if cfg != 3 {
		if err := db.Close(); err != nil {
			db = nil
			return "streamwriter-close", err.Error()
		}
		db, err = Open(o)
		if err != nil {
			db = nil
			return "streamwriter-reopen", err.Error()
		}
		if got := c26DumpStr(c26Dump(db)); got != want {
			return "streamwriter-content", fmt.Sprintf("after re-open the database holds %s\n  streamed (+ pre-existing): %s", got, want)
		}
	}
	// C11 post-condition: new commits get timestamps above every streamed version
	for _, k := range c26Keys[:2] {
		if err := db.Update(func(txn *Txn) error { return txn.Set([]byte(k), []byte("new")) }); err != nil {
			return "streamwriter-write-after", err.Error()
		}
		ts := db.orc.nextTs() - 1
		if ts <= maxVer {
			return "streamwriter-stale-ts", fmt.Sprintf("commit after the stream load got timestamp %d, streamed max version %d", ts, maxVer)
		}
		var got string
		_ = db.View(func(txn *Txn) error { got = getStr(txn, k); return nil })
		if got != "new" {
			return "streamwriter-stale-read", fmt.Sprintf("after writing %q=new a fresh read returns %q", k, got)
		}
	}
	return "", ""
}

// c26inc (E-enum, inside a bubble): PrepareIncremental on a database that has real compactors and
// data in level 0 and / or the last level (with level 0 populated the writer flattens the tree first).
// While the stream writer adds tables the compactors must be stopped, afterwards exactly one set of
// compactors runs, and after Close none: ten virtual minutes after Close no compactor goroutine may be
// left (a left-over compactor reads tables that Close has unmapped).
func init() {
	registerEnum("c26inc", func(e *enumCtx) {
		for _, layout := range []string{"empty", "last", "l0+last", "l0"} {
			for _, compactors := range []int{2, 4} {
				layout, compactors := layout, compactors
				e.do(fmt.Sprintf("%s/compactors%d", layout, compactors), func() (c, d string) {
					inBubble(e.t, func() {
						dir := freshDir(e.j)
						defer removeAll(dir)
						o := smallOpts(dir)
						o.NumCompactors = compactors
						o.NumLevelZeroTables, o.NumLevelZeroTablesStall = 2, 4
						db := mustOpen(o)
						closed := false
						defer func() {
							if !closed {
								_ = db.Close()
							}
							if c != "" {
								bubbleLeakOK = true // the finding stands; whatever goroutines it left behind stay in the dead bubble
							}
						}()
						put := func(k string) {
							if err := db.Update(func(txn *Txn) error { return txn.Set([]byte(k), val(k+"|", 80)) }); err != nil {
								panic(err)
							}
						}
						want := map[string]bool{}
						var trace []string
						note := func(what string) {
							synctest.Wait()
							buf := make([]byte, 4<<20)
							trace = append(trace, fmt.Sprintf("%s:%d", what, strings.Count(string(buf[:runtime.Stack(buf, true)]), "levelsController).runCompactor(")))
						}
						note("open")
						if layout == "last" || layout == "l0+last" {
							for i := 0; i < 20; i++ {
								k := fmt.Sprintf("a%03d", i)
								put(k)
								want[k] = true
							}
							lsmFlush(db)
							note("flushed")
							runOnceAs(db, 0) // level 0 -> last level
							if err := db.Flatten(1); err != nil {
								c, d = "c26-setup", err.Error()
								return
							}
							note("flattened")
						}
						if layout == "l0" || layout == "l0+last" {
							put("b001")
							want["b001"] = true
							lsmFlush(db)
						}
						synctest.Wait()
						running := func() int {
							buf := make([]byte, 4<<20)
							return strings.Count(string(buf[:runtime.Stack(buf, true)]), "levelsController).runCompactor(")
						}
						sw := db.NewStreamWriter()
						if err := sw.PrepareIncremental(); err != nil {
							c, d = "streamwriter-prepare", err.Error()
							return
						}
						synctest.Wait()
						if f := os.Getenv("VERIF_DEBUG_STACKS"); f != "" {
							buf := make([]byte, 4<<20)
							_ = os.WriteFile(f+".prep", buf[:runtime.Stack(buf, true)], 0o644)
						}
						if n := running(); n != 0 {
							c, d = "streamwriter-compactors-running", fmt.Sprintf("layout %s: %d compactor goroutines are running after PrepareIncremental returned (the stream writer adds unsorted tables to a level: nobody else may touch the levels until Flush); compactor goroutines so far: %v", layout, n, trace)
							sw.Cancel()
							return
						}
						buf := z.NewBuffer(1<<10, "c26inc")
						for i := 0; i < 10; i++ {
							k := fmt.Sprintf("c%03d", i)
							KVToBuffer(&pb.KV{Key: []byte(k), Value: []byte("streamed"), Version: 1000, StreamId: 1}, buf)
							want[k] = true
						}
						err := sw.Write(buf)
						_ = buf.Release()
						if err != nil {
							sw.Cancel()
							c, d = "streamwriter-write", err.Error()
							return
						}
						if err := sw.Flush(); err != nil {
							c, d = "streamwriter-flush", err.Error()
							return
						}
						synctest.Wait()
						if n := running(); n != compactors {
							c, d = "streamwriter-compactors-after-flush", fmt.Sprintf("layout %s: %d compactor goroutines run after Flush, the database is configured with %d", layout, n, compactors)
							return
						}
						got := map[string]bool{}
						_ = db.View(func(txn *Txn) error {
							it := txn.NewIterator(DefaultIteratorOptions)
							defer it.Close()
							for it.Rewind(); it.Valid(); it.Next() {
								got[string(it.Item().Key())] = true
							}
							return nil
						})
						if fmt.Sprint(len(got)) != fmt.Sprint(len(want)) {
							c, d = "streamwriter-content", fmt.Sprintf("layout %s: %d keys after Flush, want %d", layout, len(got), len(want))
							return
						}
						closed = true
						if err := db.Close(); err != nil {
							c, d = "streamwriter-close", err.Error()
							return
						}
						time.Sleep(10 * time.Minute)
						if os.Getenv("VERIF_DEBUG_STACKS") != "" {
							buf := make([]byte, 4<<20)
							_ = os.WriteFile(os.Getenv("VERIF_DEBUG_STACKS"), buf[:runtime.Stack(buf, true)], 0o644)
						}
						if n := running(); n != 0 {
							c, d = "compactors-running-after-close", fmt.Sprintf("layout %s: %d compactor goroutines are still running ten minutes after Close returned", layout, n)
							bubbleLeakOK = true
						}
					})
					return
				})
			}
		}
	})
}
