package badger

// C34 — watermarks never expose unfinished indices or strand waiters (fine mode: every channel
// statement and every atomic operation in y/watermark.go is a schedule point).

import (
	"context"
	"fmt"

	"github.com/dgraph-io/badger/v4/vshim/sched"
	"github.com/dgraph-io/badger/v4/vshim/vatomic"
	"github.com/dgraph-io/badger/v4/y"
	"github.com/dgraph-io/ristretto/v2/z"
)

type c34State struct {
	w          *y.WaterMark
	closer     *z.Closer
	begun      map[uint64]bool // Begin returned
	doneCalled map[uint64]bool // Done about to be called
	lastDU     uint64
	waitRet    map[uint64]uint64 // index -> DoneUntil observed when WaitForMark returned
	viol       string
}

func init() {
	registerSched(&schedScenario{
		name:   "c34wm",
		points: nil, // every point
		setup: func(x *schedExec) {
			st := &c34State{w: &y.WaterMark{Name: "verif"}, closer: z.NewCloser(1), begun: map[uint64]bool{}, doneCalled: map[uint64]bool{}, waitRet: map[uint64]uint64{}}
			st.w.Init(st.closer)
			if x.j.Int("case", 0)%2 == 1 {
				// readMark-like start: everything up to 5 already done
				st.w.Done(5)
				st.lastDU = 0
			}
			x.state = st
			vatomic.Hook = func(string) { x.s.Point("atomic") }
		},
		teardown: func(x *schedExec) {
			vatomic.Hook = nil
			x.state.(*c34State).closer.SignalAndWait()
		},
		threads: func(x *schedExec) []sched.Thread {
			st := x.state.(*c34State)
			c := x.j.Int("case", 0)
			base := uint64(0)
			if c%2 == 1 {
				base = 5
			}
			variant := c / 2
			i1, i2, i3 := base+1, base+2, base+3
			begun1 := make(chan struct{})
			begun2 := make(chan struct{})
			begin := func(i uint64) { st.w.Begin(i); st.begun[i] = true }
			done := func(i uint64) { st.doneCalled[i] = true; st.w.Done(i) }
			wait := func(i uint64) {
				if err := st.w.WaitForMark(context.Background(), i); err != nil {
					st.viol = err.Error()
				}
				st.waitRet[i] = st.w.DoneUntil()
			}
			t0 := sched.Thread{Name: "B", Body: func() {
				begin(i1)
				close(begun1)
				begin(i2)
				close(begun2)
				if variant == 2 {
					begin(i3)
					done(i3)
				}
				done(i2)
			}}
			t1 := sched.Thread{Name: "D1", Body: func() { <-begun1; done(i1) }}
			t2 := sched.Thread{Name: "W2", Body: func() { wait(i2) }}
			t3 := sched.Thread{Name: "W1", Body: func() { wait(i1) }}
			switch variant {
			case 0:
				return []sched.Thread{t0, t1, t2}
			case 1:
				return []sched.Thread{t0, t1, t2, t3}
			default:
				return []sched.Thread{t0, t1, sched.Thread{Name: "W3", Body: func() { <-begun2; wait(i3) }}}
			}
		},
		afterStep: func(x *schedExec) string {
			st := x.state.(*c34State)
			du := st.w.DoneUntil()
			if du < st.lastDU {
				return fmt.Sprintf("DoneUntil went backwards: %d -> %d", st.lastDU, du)
			}
			st.lastDU = du
			for i, b := range st.begun {
				if b && i <= du && !st.doneCalled[i] {
					return fmt.Sprintf("DoneUntil = %d although index %d was begun and Done(%d) has not been called", du, i, i)
				}
			}
			return ""
		},
		check: func(x *schedExec) (string, string, string) {
			st := x.state.(*c34State)
			if st.viol != "" {
				return "", st.viol, "watermark-error"
			}
			for i, du := range st.waitRet {
				if du < i {
					return "", fmt.Sprintf("WaitForMark(%d) returned while DoneUntil = %d", i, du), "watermark-early-release"
				}
			}
			var max uint64
			for i := range st.begun {
				if i > max {
					max = i
				}
			}
			// all threads finished => every begun index is done; the mark must have caught up
			// (the process goroutine has drained the channel at quiescence)
			if du := st.w.DoneUntil(); du != max {
				return "", fmt.Sprintf("at quiescence DoneUntil = %d, every index up to %d is done", du, max), "watermark-stuck"
			}
			return fmt.Sprint(st.waitRet), "", ""
		},
	})
}
