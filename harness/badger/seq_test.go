package badger

// E-seq: breadth-first enumeration of operation sequences on the real DB.  A state is the
// operation sequence that reaches it; a successor is computed by replaying the sequence on a
// fresh DB plus one operation.  The driver (cmd/vcheck) runs level-synchronous rounds: workers
// expand slices of the frontier and report (child sequence, canonical state key); the driver
// deduplicates globally.

import (
	"bufio"
	"crypto/sha1"
	"encoding/hex"
	"encoding/json"
	"fmt"
	"os"
	"strings"
	"testing"
	"time"

	"github.com/dgraph-io/badger/v4/vshim/vlib"
)

type seqExec struct {
	j     *vlib.Job
	t     *testing.T
	db    *DB
	dir   string
	st    any // scenario state (model etc.)
	trace []string
}

type seqScenario struct {
	name string
	// open creates the database and the model.
	open func(x *seqExec)
	// enabled lists the operations offered in the current state (simplest first).
	enabled func(x *seqExec) []string
	// apply performs op on the DB and the model; false = the op changed nothing (pruned).
	apply func(x *seqExec, op string) bool
	// check is the oracle run after op; returns failure class and description ("" = fine).
	check func(x *seqExec, op string) (string, string)
	// key is the canonical state key.
	key func(x *seqExec) string
	// close tears the execution down.
	close func(x *seqExec)
	// describe renders the state for humans (replay mode).
	describe func(x *seqExec) string
}

type seqChild struct {
	Seq []string `json:"seq"`
	Key string   `json:"key"`
}

func hashKey(s string) string {
	h := sha1.Sum([]byte(s))
	return hex.EncodeToString(h[:12])
}

// run replays seq on a fresh DB inside a bubble.  checkAll = run the oracle after every op,
// otherwise only after the last one.  Returns (applied(last op changed state), class, desc, key, enabled).
func (sc *seqScenario) run(t *testing.T, j *vlib.Job, seq []string, checkAll bool, wantEnabled bool) (applied bool, class, desc, key string, en []string) {
	j.WriteJournal(map[string]any{"scenario": sc.name, "seq": seq})
	inBubble(t, func() {
		x := &seqExec{j: j, t: t}
		x.dir = freshDir(j)
		sc.open(x)
		defer func() {
			sc.close(x)
			_ = os.RemoveAll(x.dir)
		}()
		applied = true
		for i, op := range seq {
			ok := sc.apply(x, op)
			x.trace = append(x.trace, op)
			if i == len(seq)-1 {
				applied = ok
			}
			if !ok && i < len(seq)-1 {
				// a prefix op that does nothing: the sequence is not canonical, but harmless
			}
			if checkAll || i == len(seq)-1 {
				if c, d := sc.check(x, op); c != "" {
					class, desc = c, fmt.Sprintf("after %v: %s", seq[:i+1], d)
					return
				}
			}
		}
		if len(seq) == 0 {
			if c, d := sc.check(x, ""); c != "" {
				class, desc = c, d
				return
			}
		}
		key = sc.key(x)
		if sc.describe != nil && j.Tier == "replay" {
			desc = sc.describe(x)
		}
		if wantEnabled {
			en = sc.enabled(x)
		}
	})
	return
}

func (sc *seqScenario) worker(t *testing.T, j *vlib.Job, r *vlib.Result) {
	if len(j.Replay) > 0 && string(j.Replay) != "null" {
		var rp struct {
			Seq []string `json:"seq"`
		}
		if err := json.Unmarshal(j.Replay, &rp); err != nil {
			r.Internal = "bad replay: " + err.Error()
			return
		}
		_, class, desc, key, en := sc.run(t, j, rp.Seq, true, true)
		r.Evaluations++
		r.Notes = append(r.Notes, "replayed "+strings.Join(rp.Seq, " ")+" key="+hashKey(key), "state: "+desc, "canonical: "+key, "enabled: "+strings.Join(en, " "))
		if class != "" {
			r.Violate(class, desc, map[string]any{"scenario": sc.name, "seq": rp.Seq}, strings.Join(rp.Seq, " "), nil)
		}
		return
	}
	frontierPath := j.Str("frontier", "")
	childrenPath := j.Str("children", "")
	var frontier [][]string
	fb, err := os.ReadFile(frontierPath)
	if err != nil {
		r.Internal = "frontier: " + err.Error()
		return
	}
	if err := json.Unmarshal(fb, &frontier); err != nil {
		r.Internal = "frontier: " + err.Error()
		return
	}
	cf, err := os.Create(childrenPath)
	if err != nil {
		r.Internal = "children: " + err.Error()
		return
	}
	defer cf.Close()
	w := bufio.NewWriter(cf)
	defer w.Flush()
	enc := json.NewEncoder(w)
	deadline := j.Deadline(time.Now())
	validate := j.Bool("validate", false) // round 0: check the seed sequences op by op
	for i, seq := range frontier {
		if i%j.NShard != j.Shard {
			continue
		}
		if !deadline.IsZero() && time.Now().After(deadline) {
			r.Capped, r.CapReason = true, "deadline"
			break
		}
		_, class, desc, key, en := sc.run(t, j, seq, validate, true)
		if class != "" {
			r.Violate(class, desc, map[string]any{"scenario": sc.name, "seq": seq}, strings.Join(seq, " "), nil)
			return
		}
		if validate {
			r.Evaluations++
			r.States++
			_ = enc.Encode(seqChild{Seq: seq, Key: hashKey(key)})
			r.Sample(map[string]any{"scenario": sc.name, "seed": strings.Join(seq, " ")})
			continue
		}
		for _, op := range en {
			child := append(append([]string{}, seq...), op)
			applied, class, desc, key, _ := sc.run(t, j, child, false, false)
			r.Evaluations++
			r.Transitions++
			if class != "" {
				r.Violate(class, desc, map[string]any{"scenario": sc.name, "seq": child}, strings.Join(child, " "), nil)
				if j.IsKnown(class) {
					r.AddExtra("known_finding_states", 1)
					continue // do not expand a state that exhibits a known finding
				}
				return
			}
			if !applied {
				r.AddExtra("pruned_noop", 1)
				continue
			}
			_ = enc.Encode(seqChild{Seq: child, Key: hashKey(key)})
			if r.Evaluations%97 == 1 {
				r.Sample(map[string]any{"scenario": sc.name, "seq": strings.Join(child, " ")})
			}
		}
		if len(seq) > r.MaxDepth {
			r.MaxDepth = len(seq)
		}
	}
}

func registerSeq(sc *seqScenario) {
	register(sc.name, func(t *testing.T, j *vlib.Job, r *vlib.Result) { sc.worker(t, j, r) })
}
