package badger

// C20 — internal key, header, value-struct and value-pointer encodings round-trip and order.
// C19 — bloom filters never hide a present key (arithmetic level; end-to-end part in c18).

import (
	"bytes"
	"fmt"
	"hash/crc32"
	"math"

	"github.com/dgraph-io/badger/v4/y"
)

var c20Alphabet = []byte{0x00, 0x01, 0x7f, 0x80, 0xff}
var c20Versions = []uint64{0, 1, 2, 255, 256, 1<<32 - 1, 1 << 32, 1 << 63, math.MaxUint64 - 1, math.MaxUint64}

func c20Keys(maxLen int) [][]byte {
	var out [][]byte
	var rec func(cur []byte)
	rec = func(cur []byte) {
		if len(cur) > 0 {
			out = append(out, append([]byte{}, cur...))
		}
		if len(cur) == maxLen {
			return
		}
		for _, b := range c20Alphabet {
			rec(append(cur, b))
		}
	}
	rec(nil)
	return out
}

func sign(x int) int {
	switch {
	case x < 0:
		return -1
	case x > 0:
		return 1
	}
	return 0
}

func init() {
	registerEnum("c20keys", func(e *enumCtx) {
		maxLen := e.j.Int("maxlen", 3)
		keys := c20Keys(maxLen)
		// a few long keys: at and around the limits
		keys = append(keys, bytes.Repeat([]byte{0xff}, 8), bytes.Repeat([]byte{0x00}, 9), bytes.Repeat([]byte{'k'}, 65000))
		type ik struct {
			k   []byte
			v   uint64
			enc []byte
		}
		var all []ik
		for _, k := range keys {
			for _, v := range c20Versions {
				all = append(all, ik{k, v, y.KeyWithTs(k, v)})
			}
		}
		for i, a := range all {
			a := a
			e.do(fmt.Sprintf("rt/%d", i), func() (string, string) {
				if !bytes.Equal(y.ParseKey(a.enc), a.k) {
					return "key-roundtrip", fmt.Sprintf("ParseKey(KeyWithTs(%x,%d)) = %x", a.k, a.v, y.ParseKey(a.enc))
				}
				if y.ParseTs(a.enc) != a.v {
					return "ts-roundtrip", fmt.Sprintf("ParseTs(KeyWithTs(%x,%d)) = %d", a.k, a.v, y.ParseTs(a.enc))
				}
				return "", ""
			})
		}
		// all ordered pairs, grouped per left operand to keep case ids small
		stride := e.j.Int("pair_stride", 1)
		for i := 0; i < len(all); i += stride {
			i := i
			a := all[i]
			e.do(fmt.Sprintf("cmp/%d", i), func() (string, string) {
				for _, b := range all {
					want := bytes.Compare(a.k, b.k)
					if want == 0 {
						// same user key: higher version sorts first
						switch {
						case a.v > b.v:
							want = -1
						case a.v < b.v:
							want = 1
						}
					}
					if got := sign(y.CompareKeys(a.enc, b.enc)); got != want {
						return "compare", fmt.Sprintf("CompareKeys(%x@%d, %x@%d) = %d, want %d", a.k, a.v, b.k, b.v, got, want)
					}
					if got := y.SameKey(a.enc, b.enc); got != bytes.Equal(a.k, b.k) {
						return "samekey", fmt.Sprintf("SameKey(%x@%d, %x@%d) = %v", a.k, a.v, b.k, b.v, got)
					}
				}
				e.r.AddExtra("pairs", int64(len(all)))
				return "", ""
			})
		}
	})

	registerEnum("c20hdr", func(e *enumCtx) {
		lens := []uint32{0, 1, 127, 128, 16383, 16384, 65000, 1<<21 - 1, 1 << 21, 1<<32 - 1}
		exps := []uint64{0, 1, 127, 128, 16383, 16384, 1 << 32, 1 << 63, math.MaxUint64}
		metas := []byte{0, bitDelete, bitValuePointer, bitDiscardEarlierVersions, bitMergeEntry, bitTxn, bitFinTxn, 0xff}
		for _, kl := range lens {
			for _, vl := range lens {
				for _, ex := range exps {
					for _, m := range metas {
						for _, um := range []byte{0, 0x5a, 0xff} {
							h := header{klen: kl, vlen: vl, expiresAt: ex, meta: m, userMeta: um}
							e.do(fmt.Sprintf("hdr/%d/%d/%d/%d/%d", kl, vl, ex, m, um), func() (string, string) {
								var buf [maxHeaderSize + 4]byte
								n := h.Encode(buf[:])
								if n > maxHeaderSize {
									return "hdr-size", fmt.Sprintf("encoded header %+v takes %d > maxHeaderSize", h, n)
								}
								var d header
								if m := d.Decode(buf[:]); m != n || d != h {
									return "hdr-decode", fmt.Sprintf("Decode(Encode(%+v)) = %+v (%d/%d bytes)", h, d, m, n)
								}
								var d2 header
								hr := newHashReader(bytes.NewReader(buf[:n]))
								m2, err := d2.DecodeFrom(hr)
								if err != nil || m2 != n || d2 != h {
									return "hdr-decodefrom", fmt.Sprintf("DecodeFrom(Encode(%+v)) = %+v n=%d err=%v", h, d2, m2, err)
								}
								if hr.Sum32() != crc32.Checksum(buf[:n], y.CastagnoliCrcTable) {
									return "hdr-hash", "hashReader sum differs from crc of the header bytes"
								}
								return "", ""
							})
						}
					}
				}
			}
		}
		// ValueStruct
		vals := [][]byte{nil, {}, {0}, {0xff}, bytes.Repeat([]byte{0x80}, 127), bytes.Repeat([]byte{1}, 128), bytes.Repeat([]byte{2}, 70000)}
		for vi, v := range vals {
			for _, ex := range exps {
				for _, m := range metas {
					for _, um := range []byte{0, 0xff} {
						vs := y.ValueStruct{Meta: m, UserMeta: um, ExpiresAt: ex, Value: v}
						e.do(fmt.Sprintf("vs/%d/%d/%d/%d", vi, ex, m, um), func() (string, string) {
							sz := vs.EncodedSize()
							b := make([]byte, sz)
							if n := vs.Encode(b); n != sz {
								return "vs-size", fmt.Sprintf("Encode wrote %d, EncodedSize %d", n, sz)
							}
							var bb bytes.Buffer
							vs.EncodeTo(&bb)
							if !bytes.Equal(bb.Bytes(), b) {
								return "vs-encodeto", "EncodeTo differs from Encode"
							}
							var d y.ValueStruct
							d.Decode(b)
							if d.Meta != vs.Meta || d.UserMeta != vs.UserMeta || d.ExpiresAt != vs.ExpiresAt || !bytes.Equal(d.Value, vs.Value) {
								return "vs-roundtrip", fmt.Sprintf("Decode(Encode(%+v)) = %+v", vs, d)
							}
							return "", ""
						})
					}
				}
			}
		}
		// valuePointer
		u32 := []uint32{0, 1, 255, 256, 65535, 1 << 16, 1<<31 - 1, 1 << 31, 1<<32 - 1}
		for _, f := range u32 {
			for _, l := range u32 {
				for _, o := range u32 {
					p := valuePointer{Fid: f, Len: l, Offset: o}
					e.do(fmt.Sprintf("vp/%d/%d/%d", f, l, o), func() (string, string) {
						b := p.Encode()
						if len(b) != int(vptrSize) {
							return "vp-size", fmt.Sprintf("encoded size %d", len(b))
						}
						var d valuePointer
						d.Decode(append(b, 0xaa, 0xbb)) // trailing bytes must be ignored
						if d != p {
							return "vp-roundtrip", fmt.Sprintf("Decode(Encode(%+v)) = %+v", p, d)
						}
						return "", ""
					})
				}
			}
		}
	})

	// C19 arithmetic level
	registerEnum("c19bloom", func(e *enumCtx) {
		bpk := []int{}
		for i := 0; i <= 40; i++ {
			bpk = append(bpk, i)
		}
		bpk = append(bpk, 64, 100, 1000, -1)
		// bits-per-key values reachable from BloomFalsePositive in (0,1)
		for _, fp := range []float64{1e-9, 1e-6, 0.001, 0.01, 0.1, 0.5, 0.9, 0.999999} {
			bpk = append(bpk, y.BloomBitsPerKey(1000, fp))
		}
		pats := []uint32{}
		for _, hi := range []uint32{0, 1, 0x7f, 0x80, 0xff, 0x100, 0x7fff, 0x8000, 0xffff} {
			for _, lo := range []uint32{0, 1, 2, 0x3f, 0x40, 0x7fff, 0x8000, 0xfffe, 0xffff} {
				pats = append(pats, hi<<16|lo)
			}
		}
		full := e.j.Bool("full32", false)
		for _, b := range bpk {
			for _, setSize := range []int{1, 2, 3, 7, 64} {
				b, setSize := b, setSize
				e.do(fmt.Sprintf("bloom/%d/%d", b, setSize), func() (string, string) {
					companions := make([]uint32, 0, setSize)
					for i := 1; i < setSize; i++ {
						companions = append(companions, uint32(i)*2654435761)
					}
					probe := func(h uint32) string {
						keys := append(append([]uint32{}, companions...), h)
						f := y.NewFilter(keys, b)
						for _, k := range keys {
							if !f.MayContain(k) {
								return fmt.Sprintf("bitsPerKey=%d set=%v: MayContain(%#x) = false", b, keys, k)
							}
						}
						return ""
					}
					for _, h := range pats {
						if s := probe(h); s != "" {
							return "bloom-false-negative", s
						}
					}
					e.r.AddExtra("hashes", int64(len(pats)))
					return "", ""
				})
			}
		}
		if full {
			// every 32-bit hash value as the single member, in 256 slices
			for _, b := range []int{1, 10, 40} {
				for slice := 0; slice < 256; slice++ {
					b, slice := b, slice
					e.do(fmt.Sprintf("bloom32/%d/%d", b, slice), func() (string, string) {
						lo := uint64(slice) << 24
						for h := lo; h < lo+1<<24; h++ {
							f := y.NewFilter([]uint32{uint32(h)}, b)
							if !f.MayContain(uint32(h)) {
								return "bloom-false-negative", fmt.Sprintf("bitsPerKey=%d: single member %#x not found", b, h)
							}
						}
						e.r.AddExtra("hashes", 1<<24)
						return "", ""
					})
				}
			}
		}
	})
}
