package badger

// C17 — MANIFEST replay reconstructs the table map exactly.

import (
	"fmt"
	"os"
	"path/filepath"
	"sort"
	"strings"

	"github.com/dgraph-io/badger/v4/options"
	"github.com/dgraph-io/badger/v4/pb"
)

type c17Change struct {
	create bool
	id     uint64
	level  int
	keyID  uint64
	comp   int
}

func (c c17Change) String() string {
	if c.create {
		return fmt.Sprintf("C%d@L%d/k%d/c%d", c.id, c.level, c.keyID, c.comp)
	}
	return fmt.Sprintf("D%d", c.id)
}

type c17Model map[uint64]TableManifest

func (m c17Model) clone() c17Model {
	n := c17Model{}
	for k, v := range m {
		n[k] = v
	}
	return n
}

func (m c17Model) apply(set []c17Change) {
	for _, c := range set {
		if c.create {
			m[c.id] = TableManifest{Level: uint8(c.level), KeyID: c.keyID, Compression: options.CompressionType(c.comp)}
		} else {
			delete(m, c.id)
		}
	}
}

func (m c17Model) String() string {
	ids := []int{}
	for id := range m {
		ids = append(ids, int(id))
	}
	sort.Ints(ids)
	var b strings.Builder
	for _, id := range ids {
		t := m[uint64(id)]
		fmt.Fprintf(&b, "%d@L%d/k%d/c%d ", id, t.Level, t.KeyID, t.Compression)
	}
	return b.String()
}

func c17FromManifest(mf *Manifest) c17Model {
	m := c17Model{}
	for id, t := range mf.Tables {
		m[id] = t
	}
	return m
}

func c17LevelsConsistent(mf *Manifest) string {
	seen := map[uint64]int{}
	for lv, l := range mf.Levels {
		for id := range l.Tables {
			if p, ok := seen[id]; ok {
				return fmt.Sprintf("table %d on levels %d and %d", id, p, lv)
			}
			seen[id] = lv
			t, ok := mf.Tables[id]
			if !ok || int(t.Level) != lv {
				return fmt.Sprintf("Levels[%d] has table %d but Tables says %+v (%v)", lv, id, t, ok)
			}
		}
	}
	if len(seen) != len(mf.Tables) {
		return fmt.Sprintf("Levels hold %d tables, Tables %d", len(seen), len(mf.Tables))
	}
	return ""
}

func c17Options(m c17Model) [][]c17Change {
	// next unused id (ids are symmetric), deletes of every present id and of an unknown one
	var next uint64 = 1
	for {
		if _, ok := m[next]; !ok {
			break
		}
		next++
	}
	var creates, deletes []c17Change
	if next <= 3 {
		for lv := 0; lv <= 2; lv++ {
			creates = append(creates, c17Change{create: true, id: next, level: lv}, c17Change{create: true, id: next, level: lv, keyID: 7, comp: 1})
		}
	}
	for id := range m {
		deletes = append(deletes, c17Change{id: id})
	}
	sort.Slice(deletes, func(i, j int) bool { return deletes[i].id < deletes[j].id })
	deletes = append(deletes, c17Change{id: 9})
	var sets [][]c17Change
	for _, c := range creates {
		sets = append(sets, []c17Change{c})
	}
	for _, d := range deletes {
		sets = append(sets, []c17Change{d})
	}
	for _, c := range creates[:min(2, len(creates))] {
		for _, d := range deletes {
			sets = append(sets, []c17Change{c, d}) // the shape of a compaction
		}
	}
	if len(deletes) >= 2 {
		sets = append(sets, []c17Change{deletes[0], deletes[1]})
	}
	return sets
}

func c17PB(set []c17Change) []*pb.ManifestChange {
	var out []*pb.ManifestChange
	for _, c := range set {
		if c.create {
			out = append(out, newCreateChange(c.id, c.level, c.keyID, options.CompressionType(c.comp)))
		} else {
			out = append(out, newDeleteChange(c.id))
		}
	}
	return out
}

func c17Replay(dir string, opt Options) (Manifest, int64, error) {
	fp, err := os.Open(filepath.Join(dir, ManifestFilename))
	if err != nil {
		return Manifest{}, 0, err
	}
	defer fp.Close()
	return ReplayManifestFile(fp, 0, opt)
}

func init() {
	registerEnum("c17manifest", func(e *enumCtx) {
		e.journal = true
		depth := e.j.Int("depth", 3)
		faultDepth := e.j.Int("fault_depth", 2)
		opt := DefaultOptions("")
		opt.Logger = nil
		// a complete rewrite of a much bigger manifest, as a crash between helpRewrite's write and its
		// rename would leave it behind under the name MANIFEST-REWRITE
		var staleRewrite []byte
		{
			sdir := freshDir(e.j)
			smf, _, err := helpOpenOrCreateManifestFile(sdir, false, 0, 10000, opt)
			if err != nil {
				panic(err)
			}
			var big []*pb.ManifestChange
			for id := uint64(100); id < 140; id++ {
				big = append(big, newCreateChange(id, 3, 0, options.None))
			}
			if err := smf.addChanges(big, opt); err != nil {
				panic(err)
			}
			smf.close()
			staleRewrite, _ = os.ReadFile(filepath.Join(sdir, ManifestFilename))
			os.RemoveAll(sdir)
		}
		type variant struct {
			thr   int
			stale bool
		}
		for _, vr := range []variant{{0, false}, {2, false}, {10000, false}, {0, true}, {2, true}} {
			thr, stale := vr.thr, vr.stale
			var rec func(seq [][]c17Change, m c17Model)
			run := func(seq [][]c17Change) {
				id := fmt.Sprintf("thr%d/%v", thr, seq)
				if stale {
					id = "stale-rewrite/" + id
				}
				e.do(id, func() (string, string) {
					dir := freshDir(e.j)
					defer os.RemoveAll(dir)
					if stale {
						if err := os.WriteFile(filepath.Join(dir, manifestRewriteFilename), staleRewrite, 0o600); err != nil {
							return "setup", err.Error()
						}
					}
					mf, _, err := helpOpenOrCreateManifestFile(dir, false, 0, thr, opt)
					if err != nil {
						return "open", err.Error()
					}
					defer mf.close()
					model := c17Model{}
					type boundary struct {
						end   int64
						state c17Model
					}
					var bounds []boundary // complete change sets of the CURRENT file
					path := filepath.Join(dir, ManifestFilename)
					if st, err := os.Stat(path); err == nil {
						// a fresh MANIFEST holds the magic plus one (empty) change set
						bounds = append(bounds, boundary{st.Size(), c17Model{}})
					}
					for i, set := range seq {
						st0, _ := os.Stat(path)
						if err := mf.addChanges(c17PB(set), opt); err != nil {
							return "addChanges", fmt.Sprintf("step %d %v: %v", i, set, err)
						}
						model.apply(set)
						st1, _ := os.Stat(path)
						if !os.SameFile(st0, st1) || st1.Size() < st0.Size() {
							bounds = []boundary{{st1.Size(), model.clone()}} // rewritten
						} else {
							bounds = append(bounds, boundary{st1.Size(), model.clone()})
						}
						if got := c17FromManifest(&mf.manifest); got.String() != model.String() {
							return "inmem", fmt.Sprintf("after %v in-memory manifest {%s} model {%s}", seq[:i+1], got, model)
						}
						rm, off, err := c17Replay(dir, opt)
						if err != nil {
							return "replay-error", fmt.Sprintf("after %v: %v", seq[:i+1], err)
						}
						if got := c17FromManifest(&rm); got.String() != model.String() {
							return "replay-state", fmt.Sprintf("after %v replay {%s} model {%s}", seq[:i+1], got, model)
						}
						if s := c17LevelsConsistent(&rm); s != "" {
							return "replay-levels", s
						}
						if off != st1.Size() {
							return "replay-offset", fmt.Sprintf("truncOffset %d, file size %d", off, st1.Size())
						}
					}
					// re-open (truncates nothing) and compare
					mf2, m2, err := helpOpenOrCreateManifestFile(dir, false, 0, thr, opt)
					if err != nil {
						return "reopen", err.Error()
					}
					mf2.close()
					if got := c17FromManifest(&m2); got.String() != model.String() {
						return "reopen-state", fmt.Sprintf("reopen {%s} model {%s}", got, model)
					}
					if len(seq) > faultDepth {
						return "", ""
					}
					// faults on a copy of the file
					data, _ := os.ReadFile(path)
					fdir := freshDir(e.j)
					defer os.RemoveAll(fdir)
					fpath := filepath.Join(fdir, ManifestFilename)
					states := map[string]bool{c17Model{}.String(): true}
					for _, b := range bounds {
						states[b.state.String()] = true
					}
					for cut := 0; cut <= len(data); cut++ {
						_ = os.WriteFile(fpath, data[:cut], 0o644)
						rm, off, err := c17Replay(fdir, opt)
						if cut < 8 {
							if err == nil {
								return "trunc-magic", fmt.Sprintf("cut %d: replay accepted a file without magic", cut)
							}
							continue
						}
						if err != nil {
							class := "trunc-error"
							if strings.Contains(err.Error(), "greater than file size") {
								// known finding F7b: the torn last record's length field exceeds the size of the
								// (still tiny) file and the over-allocation guard reports corruption
								class = "trunc-error/length-exceeds-file-size"
							}
							return class, fmt.Sprintf("seq %v cut at %d/%d: %v", seq, cut, len(data), err)
						}
						want := c17Model{}
						wantOff := int64(8)
						for _, b := range bounds {
							if int64(cut) >= b.end {
								want, wantOff = b.state, b.end
							}
						}
						if got := c17FromManifest(&rm); got.String() != want.String() || off != wantOff {
							return "trunc-state", fmt.Sprintf("seq %v cut at %d: replay {%s} off %d, want {%s} off %d", seq, cut, got, off, want, wantOff)
						}
						e.r.AddExtra("truncations", 1)
					}
					for pos := 0; pos < len(data); pos++ {
						mut := append([]byte{}, data...)
						mut[pos] ^= 0xff
						_ = os.WriteFile(fpath, mut, 0o644)
						rm, _, err := c17Replay(fdir, opt)
						e.r.AddExtra("flips", 1)
						if err != nil {
							continue
						}
						if got := c17FromManifest(&rm).String(); !states[got] {
							return "flip-applied", fmt.Sprintf("seq %v byte %d flipped: replay accepted and gave {%s}, not a prefix state", seq, pos, got)
						}
					}
					return "", ""
				})
			}
			rec = func(seq [][]c17Change, m c17Model) {
				if len(seq) > 0 {
					run(seq)
				}
				if len(seq) == depth || e.stop() {
					return
				}
				for _, set := range c17Options(m) {
					nm := m.clone()
					nm.apply(set)
					rec(append(append([][]c17Change{}, seq...), set), nm)
				}
			}
			rec(nil, c17Model{})
		}
	})
}
