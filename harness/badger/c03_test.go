package badger

// C03 — commits are atomic, uniquely timestamped and visible to later readers.

import (
	"fmt"
	"sort"
	"strings"
	"sync"

	"github.com/dgraph-io/badger/v4/vshim/sched"
)

type c03State struct {
	h    *hist
	keys []string
}

var c03Points = []string{"op", "commit.ts", "write.lsm", "commit.applied", "readTs.wait", "mt.rotate", "flush.add", "flush.pop"}

func c03Committer(x *schedExec, name string, kv map[string]string, async bool) sched.Thread {
	st := x.state.(*c03State)
	return sched.Thread{Name: name, Body: func() {
		rec := st.h.add(&txnRec{Name: name, Update: true, Writes: kv})
		x.s.Point("op")
		rec.BeginAt = st.h.tick()
		txn := x.db.NewTransaction(true)
		rec.BegunAt = st.h.tick()
		rec.ReadTs = txn.ReadTs()
		ks := make([]string, 0, len(kv))
		for k := range kv {
			ks = append(ks, k)
		}
		sort.Strings(ks)
		for _, k := range ks {
			if kv[k] == "<del>" {
				rec.Err = txn.Delete([]byte(k))
			} else {
				rec.Err = txn.Set([]byte(k), []byte(kv[k]))
			}
			if rec.Err != nil {
				txn.Discard()
				rec.Done = true
				rec.DoneAt = st.h.tick()
				return
			}
		}
		x.s.Point("op")
		rec.CommitAt = st.h.tick()
		if async {
			var wg sync.WaitGroup
			wg.Add(1)
			txn.CommitWith(func(err error) {
				rec.Err = err
				rec.DoneAt = st.h.tick()
				rec.Done = true
				wg.Done()
			})
			wg.Wait()
		} else {
			rec.Err = txn.Commit()
			rec.DoneAt = st.h.tick()
			rec.Done = true
		}
	}}
}

func c03Reader(x *schedExec, name string, rounds int) sched.Thread {
	st := x.state.(*c03State)
	return sched.Thread{Name: name, Body: func() {
		rec := st.h.add(&txnRec{Name: name})
		x.s.Point("op")
		rec.BeginAt = st.h.tick()
		txn := x.db.NewTransaction(false)
		rec.BegunAt = st.h.tick()
		rec.ReadTs = txn.ReadTs()
		for i := 0; i < rounds; i++ {
			x.s.Point("op")
			rec.Reads = append(rec.Reads, readKeys(txn, st.keys))
		}
		txn.Discard()
		rec.Done = true
	}}
}

// c03Check is the shared oracle: commit timestamps distinct and consistent with real-time
// order; every read equals the newest committed write at or below the reader's read timestamp
// (hence all-or-nothing per commit); a reader begun after a commit was acknowledged sees it;
// failed commits leave no trace.
func c03Check(x *schedExec) (string, string, string) {
	st := x.state.(*c03State)
	d := dumpAll(x.db)
	// map values back to commits
	byVal := map[string]*txnRec{}
	for _, t := range st.h.txns {
		if t.Update {
			for _, v := range t.Writes {
				byVal[v] = t
			}
		}
	}
	for k, vs := range d {
		for _, e := range vs {
			if e.Deleted {
				continue
			}
			t := byVal[e.Val]
			if t == nil {
				if strings.HasPrefix(e.Val, "init") {
					continue
				}
				return "", fmt.Sprintf("key %q holds unknown value %q", k, e.Val), "unknown-value"
			}
			if t.Err != nil {
				return "", fmt.Sprintf("failed commit %s (err %v) left %q=%q at version %d", t.Name, t.Err, k, e.Val, e.Ver), "failed-commit-visible"
			}
			if t.CommitTs != 0 && t.CommitTs != e.Ver {
				return "", fmt.Sprintf("commit %s visible at two versions %d and %d (dump %s)", t.Name, t.CommitTs, e.Ver, dumpString(d)), "split-commit"
			}
			t.CommitTs = e.Ver
		}
	}
	var commits []*txnRec
	for _, t := range st.h.txns {
		if !t.Update {
			continue
		}
		if !t.Done {
			return "", "commit " + t.Name + " never finished", "unfinished"
		}
		if t.Err == nil {
			if t.CommitTs == 0 {
				return "", fmt.Sprintf("commit %s returned nil but none of its writes is stored (dump %s)", t.Name, dumpString(d)), "lost-commit"
			}
			for k, v := range t.Writes {
				found := false
				for _, e := range d[k] {
					if e.Ver == t.CommitTs && e.Val == v {
						found = true
					}
				}
				if !found {
					return "", fmt.Sprintf("commit %s@%d: write %q=%q missing (dump %s)", t.Name, t.CommitTs, k, v, dumpString(d)), "partial-commit"
				}
			}
			commits = append(commits, t)
		}
	}
	for i, a := range commits {
		for _, b := range commits[i+1:] {
			if a.CommitTs == b.CommitTs {
				return "", fmt.Sprintf("commits %s and %s share timestamp %d", a.Name, b.Name, a.CommitTs), "duplicate-ts"
			}
			if a.DoneAt < b.CommitAt && a.CommitTs > b.CommitTs {
				return "", fmt.Sprintf("%s finished before %s was issued but ts %d > %d", a.Name, b.Name, a.CommitTs, b.CommitTs), "ts-order"
			}
			if b.DoneAt < a.CommitAt && b.CommitTs > a.CommitTs {
				return "", fmt.Sprintf("%s finished before %s was issued but ts %d > %d", b.Name, a.Name, b.CommitTs, a.CommitTs), "ts-order"
			}
		}
	}
	// order of timestamp allocation under the write-channel lock
	var lastTs uint64
	for _, ev := range x.s.Events {
		var tid int
		if n, _ := fmt.Sscanf(ev, "commit.ts tid=%d", &tid); n == 1 {
			for _, t := range commits {
				if t.ID == tid { // harness thread i created txn record i (threads create one record each, in order)
					_ = t
				}
			}
		}
	}
	_ = lastTs
	var out []string
	txns := append([]*txnRec{}, st.h.txns...)
	sort.Slice(txns, func(i, j int) bool { return txns[i].Name < txns[j].Name })
	for _, t := range txns {
		if t.Update {
			out = append(out, fmt.Sprintf("%s@%d", t.Name, t.CommitTs))
			continue
		}
		for ri, rd := range t.Reads {
			for _, k := range st.keys {
				want := expectAt(d, k, t.ReadTs)
				got := rd[k]
				if got != want {
					return "", fmt.Sprintf("reader %s (readTs %d) round %d: key %q = %v, want %v (dump %s)", t.Name, t.ReadTs, ri, k, got, want, dumpString(d)), "snapshot-read"
				}
			}
		}
		for _, c := range commits {
			if c.DoneAt < t.BeginAt && t.ReadTs < c.CommitTs {
				return "", fmt.Sprintf("reader %s started after %s was acknowledged but readTs %d < commitTs %d", t.Name, c.Name, t.ReadTs, c.CommitTs), "ack-not-visible"
			}
		}
		out = append(out, fmt.Sprintf("%s@r%d", t.Name, t.ReadTs))
	}
	return strings.Join(out, " "), "", ""
}

func init() {
	registerSched(&schedScenario{
		name:   "c03a",
		points: c03Points,
		setup: func(x *schedExec) {
			o := smallOpts(x.dir)
			if x.j.Bool("inmemory", false) {
				o.InMemory, o.Dir, o.ValueDir = true, "", ""
			}
			x.db = mustOpen(o)
			x.state = &c03State{h: &hist{}, keys: []string{"a", "b", "c"}}
		},
		threads: func(x *schedExec) []sched.Thread {
			return []sched.Thread{
				c03Committer(x, "T1", map[string]string{"a": "T1", "b": "T1"}, false),
				c03Committer(x, "T2", map[string]string{"b": "T2", "c": "T2"}, true),
				c03Reader(x, "R1", 1),
				c03Reader(x, "R2", 1),
			}
		},
		check: c03Check,
	})
}

// c03close: committers race DB.Close.  A commit that returned nil must be completely visible
// after re-opening; a commit that returned an error (writes blocked / DB closed) must have left
// no trace at all: never a part of a transaction.
func init() {
	type closeState struct {
		results  map[string]error // commit name -> Commit result
		closeErr error
	}
	registerSched(&schedScenario{
		name:   "c03close",
		points: []string{"op", "commit.ts", "send.enqueue", "write.lsm", "commit.applied"},
		setup: func(x *schedExec) {
			o := smallOpts(x.dir)
			x.db = mustOpen(o)
			x.state = &closeState{results: map[string]error{}}
		},
		teardown: func(x *schedExec) {
			if x.db != nil {
				_ = x.db.Close()
			}
		},
		threads: func(x *schedExec) []sched.Thread {
			st := x.state.(*closeState)
			var mu gosyncMutex
			committer := func(name string, n int) sched.Thread {
				return sched.Thread{Name: name, Body: func() {
					for i := 0; i < n; i++ {
						x.s.Point("op")
						tag := fmt.Sprintf("%s%d", name, i)
						err := func() (err error) {
							defer func() {
								if r := recover(); r != nil {
									err = fmt.Errorf("panic: %v", r)
								}
							}()
							return x.db.Update(func(txn *Txn) error {
								if err := txn.Set([]byte(tag+"-1"), []byte(tag)); err != nil {
									return err
								}
								return txn.Set([]byte(tag+"-2"), []byte(tag))
							})
						}()
						mu.Lock()
						st.results[tag] = err
						mu.Unlock()
					}
				}}
			}
			return []sched.Thread{committer("A", 2), committer("B", 2), {Name: "Close", Body: func() {
				x.s.Point("op")
				st.closeErr = x.db.Close()
			}}}
		},
		check: func(x *schedExec) (string, string, string) {
			st := x.state.(*closeState)
			if st.closeErr != nil {
				return "", "Close: " + st.closeErr.Error(), "close-error"
			}
			opt := x.db.opt
			db, err := Open(opt)
			if err != nil {
				x.db = nil
				return "", "re-open after Close: " + err.Error(), "reopen-failed"
			}
			x.db = db
			txn := db.NewTransaction(false)
			defer txn.Discard()
			var out []string
			for _, tag := range []string{"A0", "A1", "B0", "B1"} {
				err, ran := st.results[tag]
				v1, v2 := getStr(txn, tag+"-1"), getStr(txn, tag+"-2")
				switch {
				case !ran:
					return "", "commit " + tag + " never returned", "unfinished"
				case err == nil && (v1 != tag || v2 != tag):
					return "", fmt.Sprintf("commit %s returned nil before Close, after re-open its keys read %q and %q", tag, v1, v2), "acked-commit-lost"
				case err != nil && strings.HasPrefix(err.Error(), "panic"):
					return "", fmt.Sprintf("commit %s: %v", tag, err), "panic/commit-during-close"
				case err != nil && (v1 != "<nil>" || v2 != "<nil>"):
					return "", fmt.Sprintf("commit %s failed with %v but after re-open its keys read %q and %q", tag, err, v1, v2), "failed-commit-visible"
				}
				if err == nil {
					out = append(out, tag+"=ok")
				} else {
					out = append(out, tag+"=rejected")
				}
			}
			return strings.Join(out, " "), "", ""
		},
	})
}

type gosyncMutex = sync.Mutex

// c34blocked: a committer races a DropPrefix of a prefix that matches nothing (it only blocks and
// unblocks writes); the commit either succeeds or is refused with ErrBlockedWrites AFTER its commit
// timestamp was allocated.  Either way the commit has finished: readers that start later must be
// released (the refused commit's timestamp must be marked done) and see a consistent state.
func init() {
	var dropErr error
	registerSched(&schedScenario{
		name:   "c34blocked",
		points: append(append([]string{}, c03Points...), "drop.block", "commit.sent", "send.enqueue"),
		setup: func(x *schedExec) {
			x.db = mustOpen(smallOpts(x.dir))
			x.state = &c03State{h: &hist{}, keys: []string{"a", "b"}}
			dropErr = nil
		},
		threads: func(x *schedExec) []sched.Thread {
			return []sched.Thread{
				c03Committer(x, "T1", map[string]string{"a": "T1", "b": "T1"}, x.j.Int("case", 0) == 1),
				{Name: "Block", Body: func() {
					x.s.Point("op")
					dropErr = x.db.DropPrefix([]byte("zz"))
				}},
				c03Reader(x, "R1", 1),
			}
		},
		check: func(x *schedExec) (string, string, string) {
			// a later committer and reader must get through
			if err := x.db.Update(func(txn *Txn) error { return txn.Set([]byte("after"), []byte("init-after")) }); err != nil {
				return "", "commit after the race: " + err.Error(), "unexpected-error"
			}
			if dropErr != nil {
				return "", "DropPrefix: " + dropErr.Error(), "drop-error"
			}
			st := x.state.(*c03State)
			for _, t := range st.h.txns {
				if t.Update && t.Err != nil && t.Err != ErrBlockedWrites && t.Err != ErrConflict {
					return "", fmt.Sprintf("commit %s returned %v", t.Name, t.Err), "unexpected-error"
				}
			}
			return c03Check(x)
		},
	})
}
