package badger

// C16 — WAL / value-log records round-trip and replay in transaction units.

import (
	"bufio"
	"bytes"
	"fmt"
	"hash/crc32"
	"math"
	"os"
	"path/filepath"
	"strconv"

	"github.com/dgraph-io/badger/v4/y"
)

func c16LogFile(dir string, fid uint32, encKey []byte) (*logFile, *KeyRegistry) {
	kr, err := OpenKeyRegistry(KeyRegistryOptions{Dir: dir, EncryptionKey: encKey, EncryptionKeyRotationDuration: 1 << 40})
	if err != nil {
		panic(err)
	}
	opt := DefaultOptions(dir)
	opt.Logger = nil
	path := filepath.Join(dir, fmt.Sprintf("%06d.vlog", fid))
	lf := &logFile{fid: fid, path: path, registry: kr, writeAt: vlogHeaderSize, opt: opt}
	if err := lf.open(path, os.O_RDWR|os.O_CREATE, 1<<20); err != nil && err.Error() != "Create a new file" {
		panic(err)
	}
	return lf, kr
}

type c16Rec struct {
	key, val []byte
	meta, um byte
	exp      uint64
	off      uint32
	plen     int
}

func c16Write(lf *logFile, e *Entry) c16Rec {
	var buf bytes.Buffer
	off := lf.writeAt
	if err := lf.writeEntry(&buf, e, lf.opt); err != nil {
		panic(err)
	}
	return c16Rec{key: e.Key, val: e.Value, meta: e.meta, um: e.UserMeta, exp: e.ExpiresAt, off: off, plen: int(lf.writeAt - off)}
}

func c16Collect(lf *logFile) (recs []c16Rec, end uint32, err error) {
	end, err = lf.iterate(true, 0, func(e Entry, vp valuePointer) error {
		recs = append(recs, c16Rec{key: append([]byte{}, e.Key...), val: append([]byte{}, e.Value...), meta: e.meta, um: e.UserMeta, exp: e.ExpiresAt, off: vp.Offset, plen: int(vp.Len)})
		if vp.Fid != lf.fid {
			return fmt.Errorf("vp.Fid %d != %d", vp.Fid, lf.fid)
		}
		return nil
	})
	return
}

func c16Same(a, b c16Rec) bool {
	return bytes.Equal(a.key, b.key) && bytes.Equal(a.val, b.val) && a.meta == b.meta && a.um == b.um && a.exp == b.exp && a.off == b.off && a.plen == b.plen
}

func init() {
	registerEnum("c16codec", func(e *enumCtx) {
		klens := []int{1, 2, 9, 127, 128, 300}
		vlens := []int{0, 1, 127, 128, 16383, 16384}
		exps := []uint64{0, 1, 127, 128, 1 << 32, 1 << 63, math.MaxUint64}
		offs := []uint32{vlogHeaderSize, 1 << 16, 1<<32 - 4096}
		bits := []byte{bitDelete, bitValuePointer, bitDiscardEarlierVersions, bitMergeEntry, bitTxn, bitFinTxn}
		for _, enc := range []int{0, 16, 32} {
			dir := freshDir(e.j)
			var key []byte
			if enc > 0 {
				key = bytes.Repeat([]byte{0x42}, enc)
			}
			lf, kr := c16LogFile(dir, 7, key)
			for _, kl := range klens {
				for _, vl := range vlens {
					for m := 0; m < 1<<len(bits); m++ {
						var meta byte
						for i, b := range bits {
							if m&(1<<i) != 0 {
								meta |= b
							}
						}
						for _, um := range []byte{0, 0xff} {
							for _, ex := range exps {
								for _, off := range offs {
									id := fmt.Sprintf("enc%d/k%d/v%d/m%x/u%x/e%d/o%d", enc, kl, vl, meta, um, ex, off)
									e.do(id, func() (string, string) {
										k := bytes.Repeat([]byte{0xa5}, kl)
										k[0] = 'K'
										v := bytes.Repeat([]byte{0x5a}, vl)
										ent := &Entry{Key: k, Value: v, meta: meta, UserMeta: um, ExpiresAt: ex}
										var buf bytes.Buffer
										n, err := lf.encodeEntry(&buf, ent, off)
										if err != nil || n != buf.Len() {
											return "encode", fmt.Sprintf("encodeEntry n=%d len=%d err=%v", n, buf.Len(), err)
										}
										d, err := lf.decodeEntry(buf.Bytes(), off)
										if err != nil {
											return "decode", err.Error()
										}
										if !bytes.Equal(d.Key, k) || !bytes.Equal(d.Value, v) || d.meta != meta || d.UserMeta != um || d.ExpiresAt != ex || d.offset != off {
											return "decode-mismatch", fmt.Sprintf("decodeEntry gave key %x.. val len %d meta %x um %x exp %d off %d", d.Key[:1], len(d.Value), d.meta, d.UserMeta, d.ExpiresAt, d.offset)
										}
										sr := &safeRead{k: make([]byte, 10), v: make([]byte, 10), recordOffset: off, lf: lf}
										d2, err := sr.Entry(bufio.NewReader(bytes.NewReader(buf.Bytes())))
										if err != nil {
											return "saferead", err.Error()
										}
										if !bytes.Equal(d2.Key, k) || !bytes.Equal(d2.Value, v) || d2.meta != meta || d2.UserMeta != um || d2.ExpiresAt != ex || d2.offset != off || d2.hlen+kl+vl+crc32.Size != n {
											return "saferead-mismatch", fmt.Sprintf("safeRead.Entry gave key len %d val len %d meta %x hlen %d", len(d2.Key), len(d2.Value), d2.meta, d2.hlen)
										}
										if enc > 0 && vl+kl > 8 && bytes.Contains(buf.Bytes(), k[:min(len(k), 16)]) && kl >= 9 {
											return "plaintext", "encrypted record contains the key in plaintext"
										}
										return "", ""
									})
								}
							}
						}
					}
				}
			}
			_ = lf.Delete()
			_ = kr.Close()
		}
	})

	// sequences of groups and their replay
	registerEnum("c16replay", func(e *enumCtx) {
		e.journal = true
		type group struct {
			name string
			mk   func(ts uint64) (ents []*Entry, deliverable bool)
		}
		fin := func(ts uint64) *Entry {
			return &Entry{Key: y.KeyWithTs(txnKey, ts), Value: []byte(strconv.FormatUint(ts, 10)), meta: bitFinTxn}
		}
		te := func(k string, ts uint64, v string) *Entry {
			return &Entry{Key: y.KeyWithTs([]byte(k), ts), Value: []byte(v), meta: bitTxn, UserMeta: 3}
		}
		groups := []group{
			{"plain", func(ts uint64) ([]*Entry, bool) {
				return []*Entry{{Key: y.KeyWithTs([]byte("p"), ts), Value: []byte("plain"), UserMeta: 9, ExpiresAt: 77}}, true
			}},
			{"txn1", func(ts uint64) ([]*Entry, bool) { return []*Entry{te("a", ts, "v1"), fin(ts)}, true }},
			{"txn3", func(ts uint64) ([]*Entry, bool) {
				return []*Entry{te("a", ts, "v1"), te("b", ts, string(bytes.Repeat([]byte("x"), 300))), te("c", ts, ""), fin(ts)}, true
			}},
			{"nofin", func(ts uint64) ([]*Entry, bool) { return []*Entry{te("a", ts, "v1"), te("b", ts, "v2")}, false }},
			{"foreign", func(ts uint64) ([]*Entry, bool) {
				return []*Entry{te("a", ts, "v1"), te("b", ts+100, "v2"), fin(ts)}, false
			}},
			{"gcmoved", func(ts uint64) ([]*Entry, bool) {
				return []*Entry{te("a", ts, "v1"), {Key: y.KeyWithTs([]byte("m"), 1), Value: []byte("moved")}, fin(ts)}, false
			}},
			{"badfin", func(ts uint64) ([]*Entry, bool) {
				return []*Entry{te("a", ts, "v1"), {Key: y.KeyWithTs(txnKey, ts), Value: []byte(strconv.FormatUint(ts+1, 10)), meta: bitFinTxn}}, false
			}},
		}
		maxLen := e.j.Int("groups", 3)
		var rec func(seq []int)
		run := func(seq []int) {
			for _, enc := range []int{0, 16} {
				id := fmt.Sprintf("enc%d/%v", enc, seq)
				e.do(id, func() (string, string) {
					dir := freshDir(e.j)
					defer os.RemoveAll(dir)
					var key []byte
					if enc > 0 {
						key = bytes.Repeat([]byte{0x42}, enc)
					}
					lf, kr := c16LogFile(dir, 3, key)
					defer kr.Close()
					defer lf.Delete()
					var want []c16Rec
					wantEnd := uint32(vlogHeaderSize)
					broken := false
					for gi, g := range seq {
						ents, ok := groups[g].mk(uint64(10 + gi))
						var recs []c16Rec
						for _, en := range ents {
							recs = append(recs, c16Write(lf, en))
						}
						if broken {
							continue
						}
						if !ok {
							broken = true
							continue
						}
						for _, r := range recs {
							if r.meta&bitFinTxn == 0 {
								want = append(want, r)
							}
						}
						wantEnd = lf.writeAt
					}
					got, end, err := c16Collect(lf)
					if err != nil {
						return "iterate-error", err.Error()
					}
					if len(got) != len(want) {
						return "replay-units", fmt.Sprintf("groups %v: delivered %d records, want %d", seq, len(got), len(want))
					}
					for i := range got {
						if !c16Same(got[i], want[i]) {
							return "replay-record", fmt.Sprintf("groups %v: record %d = {%q meta %x off %d len %d}, want {%q meta %x off %d len %d}", seq, i, got[i].key, got[i].meta, got[i].off, got[i].plen, want[i].key, want[i].meta, want[i].off, want[i].plen)
						}
						// the value pointer must lead back to the record
						b, err := lf.read(valuePointer{Fid: lf.fid, Offset: got[i].off, Len: uint32(got[i].plen)})
						if err != nil {
							return "vptr-read", err.Error()
						}
						d, err := lf.decodeEntry(b, got[i].off)
						if err != nil || !bytes.Equal(d.Key, want[i].key) || !bytes.Equal(d.Value, want[i].val) {
							return "vptr-decode", fmt.Sprintf("record %d: value pointer does not decode back (err %v)", i, err)
						}
					}
					if end != wantEnd {
						return "valid-end-offset", fmt.Sprintf("groups %v: validEndOffset %d, want %d", seq, end, wantEnd)
					}
					return "", ""
				})
			}
		}
		rec = func(seq []int) {
			if len(seq) > 0 {
				run(seq)
			}
			if len(seq) == maxLen || e.stop() {
				return
			}
			for g := range groups {
				rec(append(append([]int{}, seq...), g))
			}
		}
		rec(nil)
	})

	// single-byte corruption at every position
	registerEnum("c16corrupt", func(e *enumCtx) {
		for _, enc := range []int{0, 32} {
			dir := freshDir(e.j)
			var key []byte
			if enc > 0 {
				key = bytes.Repeat([]byte{0x42}, enc)
			}
			lf, kr := c16LogFile(dir, 5, key)
			ents := []*Entry{
				{Key: y.KeyWithTs([]byte("k1"), 5), Value: []byte("value-one"), UserMeta: 1},
				{Key: y.KeyWithTs([]byte("ta"), 6), Value: []byte("txn-a"), meta: bitTxn},
				{Key: y.KeyWithTs([]byte("tb"), 6), Value: bytes.Repeat([]byte("B"), 140), meta: bitTxn, ExpiresAt: 1 << 40},
				{Key: y.KeyWithTs(txnKey, 6), Value: []byte("6"), meta: bitFinTxn},
				{Key: y.KeyWithTs([]byte("k2"), 7), Value: []byte("value-two"), meta: bitDelete},
			}
			var recs []c16Rec
			for _, en := range ents {
				recs = append(recs, c16Write(lf, en))
			}
			orig, _, err := c16Collect(lf)
			if err != nil || len(orig) != 4 {
				e.r.Internal = fmt.Sprintf("c16corrupt baseline: %d records, err %v", len(orig), err)
				return
			}
			end := int(lf.writeAt)
			for pos := vlogHeaderSize; pos < end; pos++ {
				for _, mode := range []string{"flip", "inc"} {
					pos, mode := pos, mode
					e.do(fmt.Sprintf("enc%d/%d/%s", enc, pos, mode), func() (string, string) {
						old := lf.Data[pos]
						if mode == "flip" {
							lf.Data[pos] = ^old
						} else {
							lf.Data[pos] = old + 1
						}
						defer func() { lf.Data[pos] = old }()
						got, _, err := c16Collect(lf)
						if err != nil {
							return "", "" // an error is a rejection
						}
						// which original record contains pos?
						hit := -1
						for i, r := range recs {
							if pos >= int(r.off) && pos < int(r.off)+r.plen {
								hit = i
							}
						}
						// delivered records must be a prefix of the original delivery, and must not
						// include the damaged record (nor, for a damaged transaction, any of it)
						if len(got) > len(orig) {
							return "corrupt-extra", fmt.Sprintf("byte %d %s: %d records delivered, original %d", pos, mode, len(got), len(orig))
						}
						for i := range got {
							if !c16Same(got[i], orig[i]) {
								return "corrupt-delivered", fmt.Sprintf("byte %d %s: record %d delivered altered: key %q val %q meta %x", pos, mode, i, got[i].key, got[i].val, got[i].meta)
							}
						}
						maxOK := map[int]int{0: 0, 1: 1, 2: 1, 3: 1, 4: 3}[hit]
						if len(got) > maxOK {
							return "corrupt-accepted", fmt.Sprintf("byte %d %s (inside record %d): %d records delivered, at most %d may be", pos, mode, hit, len(got), maxOK)
						}
						return "", ""
					})
				}
			}
			_ = lf.Delete()
			_ = kr.Close()
		}
	})
}
