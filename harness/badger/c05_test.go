package badger

// C05 — iterators return the visible keys exactly once, in order, honouring options (E-enum).
//
// Databases: subsets of a 6-key universe with prefix pairs and 0x00/0xFF bytes; every key gets one
// of 5 version histories; the versions are spread over 4 storage layers (a deeper level, two L0
// tables, the memtable) by every cut pattern of the global write order.  Per database every
// combination of direction x AllVersions x Prefix x (readTs, SinceTs) x InternalAccess (prefetch
// mode rotating) is walked from Rewind and from Seek(t) for every target, and NewKeyIterator for
// every universe key, against a sorted-list reference model.

import (
	"bytes"
	"fmt"
	"sort"
	"strings"

	"github.com/dgraph-io/badger/v4/y"
)

var c05Universe = []string{"a", "a\x00", "a\xff", "ab", "b", "\xff\xff"}

var c05Probes = []string{"\x00", "a\x00\x00", "aa", "ab\x00", "ab\xff", "a\xff\xff", "c", "\xff", "\xff\xff\xff"}

// histories: v, v v', v del, del v, v del v'
var c05Hists = [][]bool{{false}, {false, false}, {false, true}, {true, false}, {false, true, false}}

const c05Internal = "!badger!verif"

type c05Ent struct {
	key      string
	ts       uint64
	val      string
	del      bool
	umeta    byte
	internal bool
	exp      uint64
}

type c05DB struct {
	ents  []c05Ent // sorted: key asc, ts desc (internal key order)
	maxTs uint64
}

func c05Val(k string, ts uint64) string {
	n := 40
	if ts%2 == 0 {
		n = 150 // above the value threshold: lives in the value log
	}
	return string(val(fmt.Sprintf("%x@%d|", k, ts), n))
}

// c05Build creates the database.  layerOf(ts) in 0..3: 0 = deeper level, 1 = older L0 table,
// 2 = newer L0 table, 3 = memtable.
func c05Build(e *enumCtx, keys []string, hists []int, cuts [3]int) (*DB, *c05DB, string) {
	o := smallOpts(freshDir(e.j))
	o.managedTxns = true
	o.BaseTableSize = 256
	o.BaseLevelSize = 4 << 10
	o.TableSizeMultiplier = 1
	o.MaxLevels = 4
	o.NumLevelZeroTables = 5
	o.NumLevelZeroTablesStall = 10
	o.BlockSize = 128
	o.ValueThreshold = 64
	o.BloomFalsePositive = 0.01
	db := mustOpen(o)
	m := &c05DB{}
	k := len(keys)
	// global write order: version j of key i has ts 1 + j*k + i
	type w struct {
		key string
		ts  uint64
		del bool
	}
	var ws []w
	for i, key := range keys {
		for j, del := range c05Hists[hists[i]] {
			ws = append(ws, w{key, uint64(1 + j*k + i), del})
		}
	}
	sort.Slice(ws, func(a, b int) bool { return ws[a].ts < ws[b].ts })
	layerOf := func(ts uint64) int {
		switch {
		case int(ts) <= cuts[0]:
			return 0
		case int(ts) <= cuts[1]:
			return 1
		case int(ts) <= cuts[2]:
			return 2
		}
		return 3
	}
	cur := 0
	// one internal (!badger!-prefixed) record, written the way BanNamespace writes its records
	if err := db.batchSet([]*Entry{{Key: y.KeyWithTs([]byte(c05Internal), 1), Value: []byte("internal-value")}}); err != nil {
		return db, m, "internal key write failed: " + err.Error()
	}
	m.ents = append(m.ents, c05Ent{key: c05Internal, ts: 1, val: "internal-value", internal: true})
	m.maxTs = 1
	flushLayer := func(layer int) string {
		if !lsmFlushNoBubble(db) {
			return ""
		}
		if layer == 0 {
			if err := db.lc.doCompact(173, compactionPriority{level: 0, score: 1.73, t: db.lc.levelTargets()}); err != nil {
				return "compaction to a deeper level failed: " + err.Error()
			}
		}
		return ""
	}
	for _, x := range ws {
		l := layerOf(x.ts)
		for cur < l {
			if s := flushLayer(cur); s != "" {
				return db, m, s
			}
			cur++
		}
		txn := db.NewTransactionAt(x.ts, true)
		ent := c05Ent{key: x.key, ts: x.ts, del: x.del, umeta: byte(0x40 + x.ts)}
		var err error
		if x.del {
			err = txn.Delete([]byte(x.key))
		} else {
			ent.val = c05Val(x.key, x.ts)
			err = txn.SetEntry(NewEntry([]byte(x.key), []byte(ent.val)).WithMeta(ent.umeta))
		}
		if err == nil {
			err = txn.CommitAt(x.ts, nil)
		}
		if err != nil {
			return db, m, "write failed: " + err.Error()
		}
		if x.del {
			ent.umeta = 0
		}
		m.ents = append(m.ents, ent)
		if x.ts > m.maxTs {
			m.maxTs = x.ts
		}
	}
	for cur < 3 {
		if s := flushLayer(cur); s != "" {
			return db, m, s
		}
		cur++
	}
	sort.Slice(m.ents, func(a, b int) bool {
		if m.ents[a].key != m.ents[b].key {
			return m.ents[a].key < m.ents[b].key
		}
		return m.ents[a].ts > m.ents[b].ts
	})
	return db, m, ""
}

// lsmFlushNoBubble rotates the memtable and waits (real time) for the flusher.
func lsmFlushNoBubble(db *DB) bool {
	db.lock.Lock()
	if db.mt == nil || db.mt.sl.Empty() {
		db.lock.Unlock()
		return false
	}
	db.flushChan <- db.mt
	db.imm = append(db.imm, db.mt)
	var err error
	db.mt, err = db.newMemTable()
	if err != nil {
		panic(err)
	}
	db.lock.Unlock()
	for {
		db.lock.RLock()
		n := len(db.imm)
		db.lock.RUnlock()
		if n == 0 {
			return true
		}
		yieldBriefly()
	}
}

type c05Opt struct {
	reverse, allv, internal bool
	prefix                  string
	readTs, since           uint64
	prefetch                int // 0 = off, else PrefetchSize code: 1->0, 2->1, 3->2, 4->100
	keyIter                 string
	useKeyIter              bool
}

func (o c05Opt) String() string {
	return fmt.Sprintf("{reverse=%v allVersions=%v internal=%v prefix=%q readTs=%d sinceTs=%d prefetch=%d keyIter=%v/%q}", o.reverse, o.allv, o.internal, o.prefix, o.readTs, o.since, o.prefetch, o.useKeyIter, o.keyIter)
}

// expected list of items (in iteration order, before Seek positioning) for the options.
func (m *c05DB) expect(o c05Opt) []c05Ent {
	var out []c05Ent
	i := 0
	for i < len(m.ents) {
		j := i
		for j < len(m.ents) && m.ents[j].key == m.ents[i].key {
			j++
		}
		group := m.ents[i:j] // newest first
		i = j
		if group[0].internal && !o.internal {
			continue
		}
		var vis []c05Ent
		for _, en := range group {
			if en.ts > o.readTs || (o.since > 0 && en.ts <= o.since) {
				continue
			}
			vis = append(vis, en)
		}
		if o.allv {
			out = append(out, vis...)
			continue
		}
		if len(vis) > 0 && !vis[0].del {
			out = append(out, vis[0])
		}
	}
	if o.reverse {
		for a, b := 0, len(out)-1; a < b; a, b = a+1, b-1 {
			out[a], out[b] = out[b], out[a]
		}
	}
	return out
}

// walkFrom: expected sequence after Seek(target) ("" = Rewind) given documented semantics: the
// iterator is positioned on the first item at or after the target in iteration order and is valid
// while the key carries the prefix (exactly equals the key for key iterators).
func c05From(all []c05Ent, o c05Opt, target string, rewind bool) []c05Ent {
	start := 0
	if rewind {
		target = o.prefix
	}
	if target != "" {
		start = len(all)
		for i, en := range all {
			if (!o.reverse && en.key >= target) || (o.reverse && en.key <= target) {
				start = i
				break
			}
		}
	}
	var out []c05Ent
	for _, en := range all[start:] {
		if o.useKeyIter {
			if en.key != o.prefix {
				break
			}
		} else if !strings.HasPrefix(en.key, o.prefix) {
			break
		}
		out = append(out, en)
	}
	return out
}

func c05Walk(it *Iterator, o c05Opt, exp []c05Ent, what string) string {
	i := 0
	valid := func() bool {
		if o.prefix != "" && !o.useKeyIter {
			// ValidForPrefix and Valid must agree for the iterator's own prefix
			if it.Valid() != it.ValidForPrefix([]byte(o.prefix)) {
				return !it.Valid() // force a report below
			}
		}
		return it.Valid()
	}
	for ; valid(); it.Next() {
		item := it.Item()
		if i >= len(exp) {
			return fmt.Sprintf("%s: extra item %q@%d after the %d expected", what, item.Key(), item.Version(), len(exp))
		}
		w := exp[i]
		if string(item.Key()) != w.key || item.Version() != w.ts {
			return fmt.Sprintf("%s: item %d is %q@%d, want %q@%d", what, i, item.Key(), item.Version(), w.key, w.ts)
		}
		if item.IsDeletedOrExpired() != w.del {
			return fmt.Sprintf("%s: item %q@%d deleted=%v, want %v", what, item.Key(), item.Version(), item.IsDeletedOrExpired(), w.del)
		}
		if !w.del {
			var v []byte
			var err error
			if i%2 == 0 {
				v, err = item.ValueCopy(nil)
			} else {
				err = item.Value(func(b []byte) error { v = append([]byte{}, b...); return nil })
			}
			if err != nil || string(v) != w.val {
				return fmt.Sprintf("%s: item %q@%d value %q (err %v), want %q", what, item.Key(), item.Version(), shortVal(string(v)), err, shortVal(w.val))
			}
			if !w.internal && item.UserMeta() != w.umeta {
				return fmt.Sprintf("%s: item %q@%d user meta %x, want %x", what, item.Key(), item.Version(), item.UserMeta(), w.umeta)
			}
		}
		i++
	}
	if i != len(exp) {
		return fmt.Sprintf("%s: iteration ended after %d of %d expected items (next expected %q@%d)", what, i, len(exp), exp[i].key, exp[i].ts)
	}
	return ""
}

func c05Check(db *DB, m *c05DB, caseNo int, r func(string, int64)) string {
	mid := (m.maxTs + 1) / 2
	type rs struct{ readTs, since uint64 }
	combos := []rs{{m.maxTs, 0}, {m.maxTs, mid}, {m.maxTs, m.maxTs}, {mid, 0}, {mid, 1}, {m.maxTs + 5, m.maxTs - 1}}
	prefixes := []string{"", "a", "ab", "b", "a\xff"}
	pf := []int{0, 1, 2, 3, 4}
	n := caseNo
	for _, c := range combos {
		txn := db.NewTransactionAt(c.readTs, false)
		for _, reverse := range []bool{false, true} {
			for _, allv := range []bool{false, true} {
				for _, internal := range []bool{false, true} {
					for _, prefix := range prefixes {
						n++
						o := c05Opt{reverse: reverse, allv: allv, internal: internal, prefix: prefix, readTs: c.readTs, since: c.since, prefetch: pf[n%len(pf)]}
						io := IteratorOptions{Reverse: reverse, AllVersions: allv, InternalAccess: internal, Prefix: []byte(prefix), SinceTs: c.since}
						if o.prefetch > 0 {
							io.PrefetchValues = true
							io.PrefetchSize = []int{0, 0, 1, 2, 100}[o.prefetch]
						}
						all := m.expect(o)
						it := txn.NewIterator(io)
						it.Rewind()
						if s := c05Walk(it, o, c05From(all, o, "", true), fmt.Sprintf("%v Rewind", o)); s != "" {
							it.Close()
							txn.Discard()
							return s
						}
						r("walks", 1)
						targets := append(append([]string{}, c05Universe...), c05Probes...)
						if internal {
							targets = append(targets, "!badger!", c05Internal, "!badger!w")
						}
						for _, t := range targets {
							if !strings.HasPrefix(t, prefix) {
								continue // seeking outside the iterator's prefix is not specified
							}
							it.Seek([]byte(t))
							if s := c05Walk(it, o, c05From(all, o, t, false), fmt.Sprintf("%v Seek(%q)", o, t)); s != "" {
								it.Close()
								txn.Discard()
								return s
							}
							r("walks", 1)
						}
						// a Rewind after Seeks restarts from the beginning
						it.Rewind()
						if s := c05Walk(it, o, c05From(all, o, "", true), fmt.Sprintf("%v Rewind after Seek", o)); s != "" {
							it.Close()
							txn.Discard()
							return s
						}
						it.Close()
					}
				}
			}
			// key iterators (all versions of one key only)
			for _, k := range c05Universe {
				n++
				o := c05Opt{reverse: reverse, allv: true, prefix: k, useKeyIter: true, keyIter: k, readTs: c.readTs, since: c.since, prefetch: pf[n%len(pf)]}
				io := IteratorOptions{Reverse: reverse, SinceTs: c.since}
				if o.prefetch > 0 {
					io.PrefetchValues = true
					io.PrefetchSize = []int{0, 0, 1, 2, 100}[o.prefetch]
				}
				all := m.expect(o)
				it := txn.NewKeyIterator([]byte(k), io)
				if !reverse {
					it.Rewind()
					if s := c05Walk(it, o, c05From(all, o, "", true), fmt.Sprintf("%v key-iterator Rewind", o)); s != "" {
						it.Close()
						txn.Discard()
						return s
					}
				}
				it.Seek([]byte(k))
				if s := c05Walk(it, o, c05From(all, o, k, false), fmt.Sprintf("%v key-iterator Seek(key)", o)); s != "" {
					it.Close()
					txn.Discard()
					return s
				}
				r("walks", 2)
				it.Close()
			}
		}
		txn.Discard()
	}
	return ""
}

func init() {
	registerEnum("c05iter", func(e *enumCtx) {
		e.journal = true
		maxKeys := e.j.Int("max_keys", 2)
		triples := [][]int{{0, 1, 3}, {0, 2, 4}, {2, 4, 5}, {0, 3, 4}}
		var subsets [][]int
		nU := len(c05Universe)
		for mask := 1; mask < 1<<nU; mask++ {
			var s []int
			for i := 0; i < nU; i++ {
				if mask&(1<<i) != 0 {
					s = append(s, i)
				}
			}
			if len(s) <= maxKeys {
				subsets = append(subsets, s)
			}
		}
		if maxKeys < 3 {
			subsets = append(subsets, triples...)
		}
		sort.SliceStable(subsets, func(a, b int) bool { return len(subsets[a]) < len(subsets[b]) })
		fullCuts := e.j.Bool("all_cuts", false)
		caseNo := 0
		// Two passes, so that a run that hits its budget has still seen every key subset and every
		// history combination: pass 0 places the layer cuts only at the two extremes (everything above
		// / below each boundary), pass 1 enumerates the remaining cut placements.
		for pass := 0; pass < 2; pass++ {
			for _, sub := range subsets {
				keys := make([]string, len(sub))
				for i, u := range sub {
					keys[i] = c05Universe[u]
				}
				nh := 1
				for range sub {
					nh *= len(c05Hists)
				}
				for hc := 0; hc < nh; hc++ {
					hists := make([]int, len(sub))
					x := hc
					T := 0
					for i := range sub {
						hists[i] = x % len(c05Hists)
						x /= len(c05Hists)
						if l := len(c05Hists[hists[i]]); l > T {
							T = l
						}
					}
					T *= len(sub) // largest possible timestamp
					var cutVals []int
					if fullCuts {
						for c := 0; c <= T; c++ {
							cutVals = append(cutVals, c)
						}
					} else {
						seen := map[int]bool{}
						for _, c := range []int{0, (T + 2) / 3, (2*T + 1) / 3, T} {
							if !seen[c] {
								seen[c] = true
								cutVals = append(cutVals, c)
							}
						}
					}
					for _, c1 := range cutVals {
						for _, c2 := range cutVals {
							for _, c3 := range cutVals {
								if c1 > c2 || c2 > c3 {
									continue
								}
								extreme := func(c int) bool { return c == 0 || c == T }
								if coarse := extreme(c1) && extreme(c2) && extreme(c3); coarse != (pass == 0) {
									continue
								}
								keys, hists, cuts := keys, hists, [3]int{c1, c2, c3}
								caseNo++
								cn := caseNo
								e.do(fmt.Sprintf("%x/h%v/cut%v", strings.Join(keys, ","), hists, cuts), func() (string, string) {
									db, m, s := c05Build(e, keys, hists, cuts)
									defer func() {
										dir := db.opt.Dir
										_ = db.Close()
										removeAll(dir)
									}()
									if s != "" {
										return "c05-build", s
									}
									e.r.AddExtra("databases", 1)
									if s := c05Check(db, m, cn, e.r.AddExtra); s != "" {
										return "iterator-mismatch", fmt.Sprintf("keys %q histories %v layer cuts %v (levels: %s): %s", keys, hists, cuts, shapeString(db), s)
									}
									return "", ""
								})
							}
						}
					}
				}
			}
		}
	})
}

var _ = bytes.Equal
var _ = y.ParseKey
