package badger

// C22 — the memtable skiplist behaves as a sorted map, sequentially and under concurrency.

import (
	"bytes"
	"fmt"
	"sort"
	"strings"

	"github.com/dgraph-io/badger/v4/skl"
	"github.com/dgraph-io/badger/v4/vshim/sched"
	"github.com/dgraph-io/badger/v4/vshim/vatomic"
	"github.com/dgraph-io/badger/v4/y"
)

func c22Val(key []byte, n int) y.ValueStruct {
	return y.ValueStruct{Value: []byte(fmt.Sprintf("%x#%d", key, n)), Meta: byte(n), UserMeta: byte(n * 7)}
}

func c22ValOK(key []byte, v y.ValueStruct) (int, bool) {
	var n int
	var k string
	s := string(v.Value)
	i := strings.IndexByte(s, '#')
	if i < 0 {
		return 0, false
	}
	k = s[:i]
	if _, err := fmt.Sscanf(s[i+1:], "%d", &n); err != nil {
		return 0, false
	}
	if k != fmt.Sprintf("%x", key) || v.Meta != byte(n) || v.UserMeta != byte(n*7) {
		return 0, false
	}
	return n, true
}

func c22Keys() [][]byte {
	return [][]byte{y.KeyWithTs([]byte("a"), 2), y.KeyWithTs([]byte("a"), 1), y.KeyWithTs([]byte("ab"), 1), y.KeyWithTs([]byte("b"), 1)}
}

type c22Model map[string]y.ValueStruct

func (m c22Model) sorted() [][]byte {
	var ks [][]byte
	for k := range m {
		ks = append(ks, []byte(k))
	}
	sort.Slice(ks, func(i, j int) bool { return y.CompareKeys(ks[i], ks[j]) < 0 })
	return ks
}

// c22Compare checks Get, both iterator directions, Seek and SeekForPrev against the model.
func c22Compare(s *skl.Skiplist, m c22Model, probes [][]byte) string {
	ks := m.sorted()
	for _, p := range probes {
		got := s.Get(p)
		// Get: finds the first key >= p with the same user key (equal or earlier version)
		var want *y.ValueStruct
		for _, k := range ks {
			if y.CompareKeys(k, p) >= 0 {
				if y.SameKey(k, p) {
					v := m[string(k)]
					v.Version = y.ParseTs(k)
					want = &v
				}
				break
			}
		}
		if want == nil {
			if got.Value != nil || got.Meta != 0 {
				return fmt.Sprintf("Get(%q@%d) = %q, want not found", y.ParseKey(p), y.ParseTs(p), got.Value)
			}
		} else if !bytes.Equal(got.Value, want.Value) || got.Meta != want.Meta || got.UserMeta != want.UserMeta || got.Version != want.Version {
			return fmt.Sprintf("Get(%q@%d) = %q v%d, want %q v%d", y.ParseKey(p), y.ParseTs(p), got.Value, got.Version, want.Value, want.Version)
		}
	}
	it := s.NewIterator()
	defer it.Close()
	var fwd [][]byte
	for it.SeekToFirst(); it.Valid(); it.Next() {
		fwd = append(fwd, append([]byte{}, it.Key()...))
		if v := it.Value(); !bytes.Equal(v.Value, m[string(it.Key())].Value) {
			return fmt.Sprintf("forward iteration: value of %x = %q", it.Key(), v.Value)
		}
		if len(fwd) > 50 {
			break
		}
	}
	if !keysEq(fwd, ks) {
		return fmt.Sprintf("forward iteration %x, want %x", fwd, ks)
	}
	var rev [][]byte
	for it.SeekToLast(); it.Valid(); it.Prev() {
		rev = append(rev, append([]byte{}, it.Key()...))
		if len(rev) > 50 {
			break
		}
	}
	for i, j := 0, len(rev)-1; i < j; i, j = i+1, j-1 {
		rev[i], rev[j] = rev[j], rev[i]
	}
	if !keysEq(rev, ks) {
		return fmt.Sprintf("reverse iteration (reversed) %x, want %x", rev, ks)
	}
	for _, p := range probes {
		it.Seek(p)
		var want []byte
		for _, k := range ks {
			if y.CompareKeys(k, p) >= 0 {
				want = k
				break
			}
		}
		if (want == nil) != !it.Valid() || (want != nil && !bytes.Equal(it.Key(), want)) {
			return fmt.Sprintf("Seek(%x): valid=%v, want %x", p, it.Valid(), want)
		}
		it.SeekForPrev(p)
		want = nil
		for _, k := range ks {
			if y.CompareKeys(k, p) <= 0 {
				want = k
			}
		}
		if (want == nil) != !it.Valid() || (want != nil && !bytes.Equal(it.Key(), want)) {
			return fmt.Sprintf("SeekForPrev(%x): valid=%v, want %x", p, it.Valid(), want)
		}
	}
	return ""
}

func keysEq(a, b [][]byte) bool {
	if len(a) != len(b) {
		return false
	}
	for i := range a {
		if !bytes.Equal(a[i], b[i]) {
			return false
		}
	}
	return true
}

func c22Probes() [][]byte {
	ps := c22Keys()
	for _, k := range []string{"a", "ab", "b", "\x00", "aa", "c"} {
		for _, ts := range []uint64{0, 1, 2, 3} {
			ps = append(ps, y.KeyWithTs([]byte(k), ts))
		}
	}
	return ps
}

func init() {
	registerEnum("c22seq", func(e *enumCtx) {
		keys := c22Keys()
		probes := c22Probes()
		maxLen := e.j.Int("len", 4)
		heights := []int{1, 2, 3}
		type step struct{ k, h int }
		var rec func(seq []step)
		run := func(seq []step) {
			e.do(fmt.Sprint(seq), func() (string, string) {
				i := 0
				y.VerifHeightFn = func() int { h := seq[i].h; return h }
				defer func() { y.VerifHeightFn = nil }()
				s := skl.NewSkiplist(1 << 16)
				defer s.DecrRef()
				m := c22Model{}
				for n, st := range seq {
					i = n
					v := c22Val(keys[st.k], n+1)
					s.Put(keys[st.k], v)
					m[string(keys[st.k])] = v
					if d := c22Compare(s, m, probes); d != "" {
						return "skiplist-sequential", fmt.Sprintf("after puts %v: %s", seq[:n+1], d)
					}
				}
				return "", ""
			})
		}
		rec = func(seq []step) {
			if len(seq) == maxLen {
				run(seq) // every prefix is checked inside
				return
			}
			if e.stop() {
				return
			}
			for k := range keys {
				for _, h := range heights {
					rec(append(append([]step{}, seq...), step{k, h}))
				}
			}
		}
		rec(nil)
	})

	// concurrent: two putters and a reader, every atomic operation in skl a schedule point
	type putRec struct {
		key        []byte
		n          int
		call, done int64
	}
	type getRec struct {
		key        []byte
		n          int // 0 = not found
		bad        string
		call, done int64
		vs         y.ValueStruct
		first      []byte
	}
	type c22State struct {
		s     *skl.Skiplist
		h     *hist
		puts  []*putRec
		gets  []*getRec
		scans []string
		err   string
	}
	registerSched(&schedScenario{
		name:   "c22conc",
		points: []string{"op", "atomic"},
		setup: func(x *schedExec) {
			c := x.j.Int("case", 0)
			hs := []int{1 + c&1, 1 + (c>>1)&1, 1 + (c>>2)&1, 1 + (c>>3)&1}
			i := 0
			y.VerifHeightFn = func() int { h := hs[i%4]; i++; return h }
			x.state = &c22State{s: skl.NewSkiplist(1 << 16), h: &hist{}}
			// one pre-existing key so that inserts happen between nodes
			st := x.state.(*c22State)
			k0 := y.KeyWithTs([]byte("ab"), 1)
			st.s.Put(k0, c22Val(k0, 9))
			st.puts = append(st.puts, &putRec{key: k0, n: 9, call: st.h.tick(), done: st.h.tick()})
			vatomic.Hook = func(string) { x.s.Point("atomic") }
		},
		teardown: func(x *schedExec) {
			vatomic.Hook = nil
			y.VerifHeightFn = nil
			x.state.(*c22State).s.DecrRef()
		},
		threads: func(x *schedExec) []sched.Thread {
			st := x.state.(*c22State)
			c := x.j.Int("case", 0)
			layout := (c >> 4) % 3
			reader := (c >> 4) / 3 % 3
			ka2, ka1, kb := y.KeyWithTs([]byte("a"), 2), y.KeyWithTs([]byte("a"), 1), y.KeyWithTs([]byte("b"), 1)
			var p0, p1 [][]byte
			switch layout {
			case 0: // same key from both putters (overwrite race) + a new maximum
				p0, p1 = [][]byte{ka1}, [][]byte{ka1, kb}
			case 1: // adjacent keys
				p0, p1 = [][]byte{ka2}, [][]byte{ka1}
			case 2: // overwrite of an existing key while another key is inserted before it
				p0, p1 = [][]byte{y.KeyWithTs([]byte("ab"), 1)}, [][]byte{ka1}
			}
			mkPutter := func(name string, keys [][]byte, base int) sched.Thread {
				return sched.Thread{Name: name, Body: func() {
					for i, k := range keys {
						x.s.Point("op")
						r := &putRec{key: k, n: base + i, call: st.h.tick()}
						st.h.mu.Lock()
						st.puts = append(st.puts, r)
						st.h.mu.Unlock()
						st.s.Put(k, c22Val(k, r.n))
						r.done = st.h.tick()
					}
				}}
			}
			rd := sched.Thread{Name: "R", Body: func() {
				x.s.Point("op")
				switch reader {
				case 0:
					for _, k := range [][]byte{ka1, y.KeyWithTs([]byte("ab"), 1), kb, ka2} {
						g := &getRec{key: k, call: st.h.tick()}
						vs := st.s.Get(k)
						g.done = st.h.tick()
						g.vs = vs
						g.first = append([]byte{}, vs.Value...)
						if vs.Value != nil || vs.Meta != 0 {
							n, ok := c22ValOK(y.KeyWithTs(y.ParseKey(k), vs.Version), vs)
							if !ok {
								g.bad = fmt.Sprintf("Get(%q@%d) returned a value no put wrote: %q meta %d version %d", y.ParseKey(k), y.ParseTs(k), vs.Value, vs.Meta, vs.Version)
							}
							g.n = n
						}
						st.gets = append(st.gets, g)
					}
				default:
					it := st.s.NewIterator()
					begin := st.h.tick()
					var ks [][]byte
					if reader == 1 {
						for it.SeekToFirst(); it.Valid(); it.Next() {
							ks = append(ks, append([]byte{}, it.Key()...))
							if _, ok := c22ValOK(it.Key(), it.Value()); !ok {
								st.err = fmt.Sprintf("forward scan: key %x has value %q meta %d that no put wrote", it.Key(), it.Value().Value, it.Value().Meta)
							}
						}
					} else {
						for it.SeekToLast(); it.Valid(); it.Prev() {
							ks = append(ks, append([]byte{}, it.Key()...))
							if _, ok := c22ValOK(it.Key(), it.Value()); !ok {
								st.err = fmt.Sprintf("reverse scan: key %x has value %q meta %d that no put wrote", it.Key(), it.Value().Value, it.Value().Meta)
							}
						}
						for i, j := 0, len(ks)-1; i < j; i, j = i+1, j-1 {
							ks[i], ks[j] = ks[j], ks[i]
						}
					}
					it.Close()
					for i := 1; i < len(ks); i++ {
						if y.CompareKeys(ks[i-1], ks[i]) >= 0 {
							st.err = fmt.Sprintf("scan not strictly sorted: %x", ks)
						}
					}
					st.h.mu.Lock()
					for _, p := range st.puts {
						found := false
						for _, k := range ks {
							if bytes.Equal(k, p.key) {
								found = true
							}
						}
						if p.done != 0 && p.done < begin && !found {
							st.err = fmt.Sprintf("scan %x misses key %x whose put returned before the scan began", ks, p.key)
						}
					}
					for _, k := range ks {
						begun := false
						for _, p := range st.puts {
							if bytes.Equal(k, p.key) {
								begun = true
							}
						}
						if !begun {
							st.err = fmt.Sprintf("scan returned key %x that nobody put", k)
						}
					}
					st.h.mu.Unlock()
					st.scans = append(st.scans, fmt.Sprintf("%x", ks))
				}
			}}
			return []sched.Thread{mkPutter("P0", p0, 10), mkPutter("P1", p1, 20), rd}
		},
		check: func(x *schedExec) (string, string, string) {
			st := x.state.(*c22State)
			if st.err != "" {
				return "", st.err, "skiplist-scan"
			}
			for _, g := range st.gets {
				if g.bad != "" {
					return "", g.bad, "skiplist-get-garbage"
				}
				// values handed out never change afterwards (arena values are immutable)
				if !bytes.Equal(g.vs.Value, g.first) {
					return "", fmt.Sprintf("value returned by Get(%x) changed after it was returned: %q -> %q", g.key, g.first, g.vs.Value), "skiplist-value-mutated"
				}
				// register linearizability per key: the result is the value of a put that had begun
				// before the Get returned and was not overwritten by a put that completed before
				// the Get began
				var cand, mustSee []*putRec
				for _, p := range st.puts {
					if !bytes.Equal(p.key, g.key) && !(y.SameKey(p.key, g.key) && y.CompareKeys(p.key, g.key) >= 0) {
						continue
					}
					if p.call < g.done {
						cand = append(cand, p)
					}
					if p.done != 0 && p.done < g.call && bytes.Equal(p.key, g.key) {
						mustSee = append(mustSee, p)
					}
				}
				if g.n == 0 {
					if len(mustSee) > 0 {
						return "", fmt.Sprintf("Get(%x) found nothing although put #%d had returned before it began", g.key, mustSee[0].n), "skiplist-get-stale"
					}
					continue
				}
				ok := false
				for _, p := range cand {
					if p.n == g.n {
						ok = true
					}
				}
				if !ok {
					return "", fmt.Sprintf("Get(%x) returned put #%d which had not begun", g.key, g.n), "skiplist-get-future"
				}
			}
			// final state = a sorted map holding, per key, the value of one of its last puts
			m := c22Model{}
			last := map[string][]*putRec{}
			for _, p := range st.puts {
				last[string(p.key)] = append(last[string(p.key)], p)
			}
			it := st.s.NewIterator()
			defer it.Close()
			var ks [][]byte
			for it.SeekToFirst(); it.Valid(); it.Next() {
				ks = append(ks, append([]byte{}, it.Key()...))
				n, ok := c22ValOK(it.Key(), it.Value())
				if !ok {
					return "", fmt.Sprintf("final state: key %x holds %q", it.Key(), it.Value().Value), "skiplist-final-garbage"
				}
				ps := last[string(it.Key())]
				valid := false
				for _, p := range ps {
					if p.n != n {
						continue
					}
					// p must not be followed (in real time) by another put of the key
					over := false
					for _, q := range ps {
						if q != p && q.call > p.done {
							over = true
						}
					}
					valid = !over
				}
				if !valid {
					return "", fmt.Sprintf("final state: key %x holds put #%d which a later put overwrote", it.Key(), n), "skiplist-lost-update"
				}
				m[string(it.Key())] = it.Value()
			}
			if len(ks) != len(last) {
				return "", fmt.Sprintf("final state has %d keys, %d distinct keys were put", len(ks), len(last)), "skiplist-final-keys"
			}
			for i := 1; i < len(ks); i++ {
				if y.CompareKeys(ks[i-1], ks[i]) >= 0 {
					return "", fmt.Sprintf("final state not sorted: %x", ks), "skiplist-final-order"
				}
			}
			var out []string
			for _, g := range st.gets {
				out = append(out, fmt.Sprint(g.n))
			}
			return strings.Join(out, ",") + "|" + strings.Join(st.scans, ";"), "", ""
		},
	})
}
