package badger

// C01/C03 concurrent part: readers (Get and iterators) racing memtable rotation + flush and a
// compaction, with every lock acquisition as a schedule point (fine mode).

import (
	"fmt"
	"sort"
	"strings"

	"github.com/dgraph-io/badger/v4/vshim/sched"
)

type c01fState struct {
	want   map[string]string
	gets   map[string]string
	iter   []string
	iterKV map[string]string
	err    string
}

func init() {
	registerSched(&schedScenario{
		name:   "c01flush",
		fine:   true,
		points: []string{"op", "lock", "flush.build", "flush.add", "flush.added", "flush.pop", "mt.rotate", "compact.picked", "compact.built", "compact.manifest", "compact.replaced", "compact.deleted"},
		setup: func(x *schedExec) {
			o := smallOpts(x.dir)
			o.NumLevelZeroTables = 1
			if x.j.Bool("inmemory", true) {
				o.InMemory, o.Dir, o.ValueDir = true, "", ""
			}
			x.db = mustOpen(o)
			st := &c01fState{want: map[string]string{}, gets: map[string]string{}, iterKV: map[string]string{}}
			put := func(k, v string) {
				if err := x.db.Update(func(txn *Txn) error { return txn.Set([]byte(k), []byte(v)) }); err != nil {
					panic(err)
				}
				st.want[k] = v
			}
			switch x.j.Str("variant", "flush") {
			case "flush":
				put("a", "a1")
				put("b", "b1")
			case "compact":
				// an L0 table holding a,b and an overwrite of a in the memtable: the maintenance
				// thread compacts L0 into the base level while the reader runs
				put("a", "a0")
				put("b", "b1")
				lsmFlush(x.db)
				put("a", "a1")
			}
			x.state = st
		},
		threads: func(x *schedExec) []sched.Thread {
			st := x.state.(*c01fState)
			maint := sched.Thread{Name: "M", Body: func() {
				x.s.Point("op")
				if x.j.Str("variant", "flush") == "flush" {
					lsmFlushMode(x.db, true)
				} else {
					runOnceAs(x.db, 0)
				}
			}}
			reader := sched.Thread{Name: "R", Body: func() {
				x.s.Point("op")
				txn := x.db.NewTransaction(false)
				defer txn.Discard()
				o := DefaultIteratorOptions
				o.PrefetchValues = false
				it := txn.NewIterator(o)
				for it.Rewind(); it.Valid(); it.Next() {
					item := it.Item()
					v, err := item.ValueCopy(nil)
					if err != nil {
						st.err = err.Error()
					}
					st.iter = append(st.iter, string(item.Key()))
					st.iterKV[string(item.Key())] = string(v)
				}
				it.Close()
				x.s.Point("op")
				// in key order: the order of a map range would differ from one execution to the next
				gk := make([]string, 0, len(st.want))
				for k := range st.want {
					gk = append(gk, k)
				}
				sort.Strings(gk)
				for _, k := range gk {
					st.gets[k] = getStr(txn, k)
				}
			}}
			return []sched.Thread{maint, reader}
		},
		check: func(x *schedExec) (string, string, string) {
			st := x.state.(*c01fState)
			if st.err != "" {
				return "", st.err, "value-error"
			}
			var ks []string
			for k := range st.want {
				ks = append(ks, k)
			}
			sort.Strings(ks)
			if strings.Join(st.iter, ",") != strings.Join(ks, ",") {
				return "", fmt.Sprintf("iterator returned keys %v, committed keys are %v (each exactly once)", st.iter, ks), "iterator-missed-or-duplicated"
			}
			for _, k := range ks {
				if st.iterKV[k] != st.want[k] {
					return "", fmt.Sprintf("iterator read %s=%q, want %q", k, st.iterKV[k], st.want[k]), "iterator-stale"
				}
				if st.gets[k] != st.want[k] {
					return "", fmt.Sprintf("Get read %s=%q, want %q", k, st.gets[k], st.want[k]), "get-stale"
				}
			}
			return "ok", "", ""
		},
	})
}
