package badger

// C06 — values and metadata read back exactly as written, wherever they are stored.
//
// c06static (E-enum): static thresholds; every combination of value size around the threshold,
// user meta, expiry, discard flag and transaction shape; read through Get+Value, ValueCopy and
// iterators with and without prefetch; before flush, after flush, after compaction, after re-open
// with the same and with a different threshold.
//
// c06dyn (E-sched): VLogPercentile on; two committers write values whose sizes straddle the moving
// threshold while badger's writer goroutine and the threshold listener are scheduled threads, so
// the threshold changes at every possible place between size check, value-log write and LSM write
// of an in-flight entry.

import (
	"bytes"
	"fmt"
	"sort"
	"strings"
	"time"

	"github.com/dgraph-io/badger/v4/vshim/sched"
)

type c06Rec struct {
	key     string
	val     []byte
	umeta   byte
	exp     uint64
	discard bool
	ver     uint64
}

// c06ReadAll reads every record through all read paths and compares.
func c06ReadAll(db *DB, recs []c06Rec, stage string, threshold int64) string {
	txn := db.NewTransaction(false)
	defer txn.Discard()
	want := map[string]c06Rec{}
	for _, r := range recs {
		want[r.key] = r
	}
	checkItem := func(how string, item *Item, w c06Rec, prefetched bool) string {
		v1, err := item.ValueCopy(nil)
		if err != nil {
			return fmt.Sprintf("%s %s key %q: ValueCopy: %v", stage, how, w.key, err)
		}
		var v2 []byte
		if err := item.Value(func(b []byte) error { v2 = append([]byte{}, b...); return nil }); err != nil {
			return fmt.Sprintf("%s %s key %q: Value: %v", stage, how, w.key, err)
		}
		if !bytes.Equal(v1, w.val) || !bytes.Equal(v2, w.val) {
			return fmt.Sprintf("%s %s key %q: value len %d / %d (%q), wrote len %d (%q)", stage, how, w.key, len(v1), len(v2), shortVal(string(v1)), len(w.val), shortVal(string(w.val)))
		}
		if item.UserMeta() != w.umeta {
			return fmt.Sprintf("%s %s key %q: user meta %#x, wrote %#x", stage, how, w.key, item.UserMeta(), w.umeta)
		}
		if item.ExpiresAt() != w.exp {
			return fmt.Sprintf("%s %s key %q: ExpiresAt %d, wrote %d", stage, how, w.key, item.ExpiresAt(), w.exp)
		}
		if item.Version() != w.ver {
			return fmt.Sprintf("%s %s key %q: version %d, committed at %d", stage, how, w.key, item.Version(), w.ver)
		}
		if item.DiscardEarlierVersions() != w.discard {
			return fmt.Sprintf("%s %s key %q: DiscardEarlierVersions %v, wrote %v", stage, how, w.key, item.DiscardEarlierVersions(), w.discard)
		}
		if item.ValueSize() != int64(len(w.val)) && !(item.meta&bitValuePointer != 0) {
			return fmt.Sprintf("%s %s key %q: ValueSize %d, wrote %d", stage, how, w.key, item.ValueSize(), len(w.val))
		}
		if threshold >= 0 {
			inVlog := item.meta&bitValuePointer != 0
			if inVlog != (int64(len(w.val)) >= threshold) {
				return fmt.Sprintf("%s %s key %q: value of %d bytes stored in value log = %v with threshold %d", stage, how, w.key, len(w.val), inVlog, threshold)
			}
		}
		return ""
	}
	for _, w := range recs {
		item, err := txn.Get([]byte(w.key))
		if err != nil {
			return fmt.Sprintf("%s Get(%q): %v", stage, w.key, err)
		}
		if s := checkItem("Get", item, w, false); s != "" {
			return s
		}
	}
	for _, io := range []IteratorOptions{{PrefetchValues: true, PrefetchSize: 3}, {PrefetchValues: false}, {PrefetchValues: true, PrefetchSize: 100, Reverse: true}} {
		it := txn.NewIterator(io)
		n := 0
		for it.Rewind(); it.Valid(); it.Next() {
			item := it.Item()
			w, ok := want[string(item.Key())]
			if !ok {
				it.Close()
				return fmt.Sprintf("%s iterator: unknown key %q", stage, item.Key())
			}
			if s := checkItem(fmt.Sprintf("iterator(prefetch=%v,reverse=%v)", io.PrefetchValues, io.Reverse), item, w, io.PrefetchValues); s != "" {
				it.Close()
				return s
			}
			n++
		}
		it.Close()
		if n != len(want) {
			return fmt.Sprintf("%s iterator(prefetch=%v): %d keys, wrote %d", stage, io.PrefetchValues, n, len(want))
		}
	}
	return ""
}

func c06Opts(dir string, threshold int64) Options {
	o := smallOpts(dir)
	o.ValueThreshold = threshold
	o.MemTableSize = 1 << 20 // maxBatchSize must exceed the largest threshold used
	o.BaseTableSize = 8 << 10
	o.NumLevelZeroTables = 5
	o.NumLevelZeroTablesStall = 10
	return o
}

func init() {
	registerEnum("c06static", func(e *enumCtx) {
		e.journal = true
		future := uint64(time.Now().Unix()) + 100000
		for _, T := range []int64{1, 32, 1024} {
			for _, inmem := range []bool{false, true} {
				for _, shape := range []string{"alone", "pair", "pair-mixed"} {
					for _, umeta := range []byte{0, 0xFF} {
						for _, exp := range []uint64{0, future} {
							for _, discard := range []bool{false, true} {
								T, inmem, shape, umeta, exp, discard := T, inmem, shape, umeta, exp, discard
								e.do(fmt.Sprintf("T%d/mem%v/%s/um%x/exp%v/disc%v", T, inmem, shape, umeta, exp != 0, discard), func() (string, string) {
									dir := freshDir(e.j)
									defer removeAll(dir)
									o := c06Opts(dir, T)
									if inmem {
										o.InMemory, o.Dir, o.ValueDir = true, "", ""
										if T < 1024 {
											return "", "" // in memory every value must stay below the threshold: only the large threshold makes sense
										}
									}
									db := mustOpen(o)
									closed := false
									defer func() {
										if !closed {
											_ = db.Close()
										}
									}()
									sizes := []int{0, 1, int(T) - 1, int(T), int(T) + 1, 2 * int(T)}
									var recs []c06Rec
									mk := func(i, n int) (*Entry, c06Rec) {
										if n < 0 {
											n = 0
										}
										if inmem && n > int(T) {
											n = int(T)
										}
										r := c06Rec{key: fmt.Sprintf("k%02d-%d", i, n), val: bytes.Repeat([]byte{byte('a' + i%26)}, n), umeta: umeta, exp: exp, discard: discard}
										if n > 2 {
											copy(r.val, fmt.Sprintf("%d|", i))
										}
										en := NewEntry([]byte(r.key), r.val).WithMeta(umeta)
										en.ExpiresAt = exp
										if discard {
											en = en.WithDiscard()
										}
										return en, r
									}
									for i, n := range sizes {
										txn := db.NewTransaction(true)
										en, r := mk(i, n)
										if err := txn.SetEntry(en); err != nil {
											return "c06-set", err.Error()
										}
										var r2 *c06Rec
										if shape != "alone" {
											m := n
											if shape == "pair-mixed" {
												m = sizes[(i+3)%len(sizes)] // partner on the other side of the threshold
											}
											en2, rr := mk(i+10, m)
											if err := txn.SetEntry(en2); err != nil {
												return "c06-set", err.Error()
											}
											r2 = &rr
										}
										if err := txn.Commit(); err != nil {
											return "c06-commit", err.Error()
										}
										r.ver = db.orc.nextTs() - 1
										recs = append(recs, r)
										if r2 != nil {
											r2.ver = r.ver
											recs = append(recs, *r2)
										}
									}
									th := T
									if inmem {
										th = -1
									}
									if s := c06ReadAll(db, recs, "before flush", th); s != "" {
										return "value-roundtrip", s
									}
									lsmFlushNoBubble(db)
									if s := c06ReadAll(db, recs, "after flush", th); s != "" {
										return "value-roundtrip", s
									}
									if err := db.lc.doCompact(173, compactionPriority{level: 0, score: 1.73, t: db.lc.levelTargets()}); err != nil {
										return "c06-compact", err.Error()
									}
									if s := c06ReadAll(db, recs, "after compaction", th); s != "" {
										return "value-roundtrip", s
									}
									if inmem {
										return "", ""
									}
									for _, T2 := range []int64{T, 32, 1 << 14} {
										if err := db.Close(); err != nil {
											closed = true
											return "c06-close", err.Error()
										}
										o2 := c06Opts(dir, T2)
										var err error
										db, err = Open(o2)
										if err != nil {
											closed = true
											return "c06-reopen", err.Error()
										}
										if s := c06ReadAll(db, recs, fmt.Sprintf("after re-open with threshold %d", T2), T); s != "" {
											return "value-roundtrip", s
										}
									}
									return "", ""
								})
							}
						}
					}
				}
			}
		}
	})

	// dynamic threshold under the scheduler.  An unscheduled prefix raises the threshold (a
	// transaction of several 900-byte values); then three committers race: C (a tiny value; while
	// badger's writer goroutine is parked on C's request the next two requests queue up and are
	// written as ONE batch), A (one value below the current threshold) and B (several small values
	// that pull the percentile, hence the threshold, below A's size).  The listener stores new
	// thresholds between the value-log write and the LSM write of A's entry.
	type dynState struct {
		recs []*c06Rec
		errs []string
		txns []*Txn
	}
	registerSched(&schedScenario{
		name:   "c06dyn",
		points: []string{"op", "write.vlog", "write.lsm", "threshold.update", "threshold.store"},
		setup: func(x *schedExec) {
			c := x.j.Int("case", 0)
			o := smallOpts(x.dir)
			o.ValueThreshold = 16
			o.VLogPercentile = []float64{0.5, 0.75}[c%2]
			x.db = mustOpen(o)
			st := &dynState{}
			x.state = st
			n := []int{3, 2}[c%2]
			txn := x.db.NewTransaction(true)
			for i := 0; i < n; i++ {
				r := &c06Rec{key: fmt.Sprintf("P-%d", i), val: val(fmt.Sprintf("P.%d|", i), 900), umeta: 9}
				if err := txn.SetEntry(NewEntry([]byte(r.key), r.val).WithMeta(r.umeta)); err != nil {
					panic(err)
				}
				st.recs = append(st.recs, r)
			}
			if err := txn.Commit(); err != nil {
				panic(err)
			}
			// the committers' transactions are created up front: a NewTransaction issued while
			// another commit is in flight waits for it, and the requests would never share a batch
			for i := 0; i < 3; i++ {
				st.txns = append(st.txns, x.db.NewTransaction(true))
			}
		},
		threads: func(x *schedExec) []sched.Thread {
			st := x.state.(*dynState)
			c := x.j.Int("case", 0) / 2
			a := []int{200, 40}[c%2]
			c /= 2
			b := []int{8, 40}[c%2]
			c /= 2
			nb := []int{1, 3}[c%2]
			mk := func(name string, sizes []int) sched.Thread {
				txn := st.txns[0]
				st.txns = st.txns[1:]
				return sched.Thread{Name: name, Body: func() {
					x.s.Point("op")
					var mine []*c06Rec
					for i, n := range sizes {
						r := &c06Rec{key: fmt.Sprintf("%s-%d", name, i), val: val(fmt.Sprintf("%s.%d|", name, i), n), umeta: byte(i + 1)}
						if err := txn.SetEntry(NewEntry([]byte(r.key), r.val).WithMeta(r.umeta)); err != nil {
							st.errs = append(st.errs, fmt.Sprintf("%s: %v", r.key, err))
							return
						}
						mine = append(mine, r)
					}
					if err := txn.Commit(); err != nil {
						st.errs = append(st.errs, fmt.Sprintf("%s: %v", name, err))
						return
					}
					st.recs = append(st.recs, mine...)
				}}
			}
			bs := make([]int, nb)
			for i := range bs {
				bs[i] = b
			}
			return []sched.Thread{mk("C", []int{8}), mk("A", []int{a}), mk("B", bs)}
		},
		check: func(x *schedExec) (string, string, string) {
			st := x.state.(*dynState)
			if len(st.errs) > 0 {
				return "", "commit failed: " + strings.Join(st.errs, "; "), "c06-commit-error"
			}
			d := dumpAll(x.db)
			var recs []c06Rec
			for _, r := range st.recs {
				vs := d[r.key]
				if len(vs) != 1 {
					return "", fmt.Sprintf("key %q has %d versions (dump %s)", r.key, len(vs), dumpString(d)), "value-roundtrip"
				}
				r.ver = vs[0].Ver
				recs = append(recs, *r)
			}
			sort.Slice(recs, func(i, j int) bool { return recs[i].key < recs[j].key })
			if s := c06ReadAll(x.db, recs, "after the commits", -1); s != "" {
				return "", s, "value-roundtrip"
			}
			aPtr := false
			for _, e := range d["A-0"] {
				aPtr = e.Meta&bitValuePointer != 0
			}
			lsmFlush(x.db)
			if s := c06ReadAll(x.db, recs, "after flush", -1); s != "" {
				return "", s, "value-roundtrip"
			}
			return fmt.Sprintf("threshold=%d A-in-vlog=%v", x.db.valueThreshold(), aPtr), "", ""
		},
	})
}

// c16rot (E-sched): three committers whose value-log values are written by badger's writer
// goroutine in batches (the first request keeps the writer busy, the next two form one batch);
// ValueLogMaxEntries is 1, so the value log rotates to a new file between the requests of one
// batch; with and without encryption.  Every value must read back through its value pointer, before
// and after a re-open.
func init() {
	type rotState struct {
		recs []*c06Rec
		errs []string
		txns []*Txn
	}
	registerSched(&schedScenario{
		name:   "c16rot",
		points: []string{"op", "write.vlog", "write.lsm"},
		setup: func(x *schedExec) {
			o := smallOpts(x.dir)
			o.ValueThreshold = 32
			o.ValueLogMaxEntries = 1
			if x.j.Int("case", 0)%2 == 1 {
				o.EncryptionKey = []byte("0123456789abcdef")
				o.IndexCacheSize = 1 << 20
				o.BlockCacheSize = 1 << 20
			}
			x.db = mustOpen(o)
			st := &rotState{}
			x.state = st
			for i := 0; i < 3; i++ { // see c06dyn: created up front so that requests can share a batch
				st.txns = append(st.txns, x.db.NewTransaction(true))
			}
		},
		threads: func(x *schedExec) []sched.Thread {
			st := x.state.(*rotState)
			mk := func(name string, n int) sched.Thread {
				txn := st.txns[0]
				st.txns = st.txns[1:]
				return sched.Thread{Name: name, Body: func() {
					x.s.Point("op")
					var mine []*c06Rec
					for i := 0; i < n; i++ {
						r := &c06Rec{key: fmt.Sprintf("%s-%d", name, i), val: val(fmt.Sprintf("%s.%d|", name, i), 100+10*i), umeta: byte(i + 1)}
						if err := txn.SetEntry(NewEntry([]byte(r.key), r.val).WithMeta(r.umeta)); err != nil {
							st.errs = append(st.errs, err.Error())
							return
						}
						mine = append(mine, r)
					}
					if err := txn.Commit(); err != nil {
						st.errs = append(st.errs, fmt.Sprintf("%s: %v", name, err))
						return
					}
					st.recs = append(st.recs, mine...)
				}}
			}
			return []sched.Thread{mk("C", 1), mk("A", 1+x.j.Int("case", 0)/2%2), mk("B", 2)}
		},
		check: func(x *schedExec) (string, string, string) {
			st := x.state.(*rotState)
			if len(st.errs) > 0 {
				return "", "commit failed: " + strings.Join(st.errs, "; "), "c06-commit-error"
			}
			d := dumpAll(x.db)
			var recs []c06Rec
			for _, r := range st.recs {
				vs := d[r.key]
				if len(vs) != 1 {
					return "", fmt.Sprintf("key %q has %d versions (dump %s)", r.key, len(vs), dumpString(d)), "value-roundtrip"
				}
				r.ver = vs[0].Ver
				recs = append(recs, *r)
			}
			sort.Slice(recs, func(i, j int) bool { return recs[i].key < recs[j].key })
			if s := c06ReadAll(x.db, recs, "after the commits", 32); s != "" {
				return "", s, "value-roundtrip"
			}
			x.db.vlog.filesLock.RLock()
			nfiles := len(x.db.vlog.filesMap)
			x.db.vlog.filesLock.RUnlock()
			opt := x.db.opt
			if err := x.db.Close(); err != nil {
				return "", "close: " + err.Error(), "c06-close"
			}
			db, err := Open(opt)
			if err != nil {
				x.db = nil
				return "", "re-open: " + err.Error(), "c06-reopen"
			}
			x.db = db
			if s := c06ReadAll(x.db, recs, "after re-open", 32); s != "" {
				return "", s, "value-roundtrip"
			}
			return fmt.Sprintf("vlogfiles=%d", nfiles), "", ""
		},
	})
}
