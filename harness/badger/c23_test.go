package badger

// C23 — encryption at rest is transparent and keeps plaintext off disk (E-enum, virtual clock).
//
// Every sequence of up to N operations out of {inline set, value-log set, delete, flush,
// compaction, value-log GC, clock advance past the data-key rotation interval, re-open, master
// key rotation (the two library calls the `badger rotate` command makes), open with a wrong key}
// on a database encrypted with a 16/24/32-byte master key.  After every step: reads equal a map
// model; no file in the directory contains a user key or value as plaintext; no two encryption
// calls used the same (data key, IV); an open with a wrong key fails with
// ErrEncryptionKeyMismatch and leaves every file byte-identical.

import (
	"bytes"
	"fmt"
	"os"
	"path/filepath"
	"strings"
	"testing/synctest"
	"time"

	"github.com/dgraph-io/badger/v4/y"
)

// c23Rotation: the data-key rotation interval of the case being run.
var c23Rotation = time.Second

func c23Opts(dir string, key []byte) Options {
	o := smallOpts(dir)
	o.EncryptionKey = key
	o.EncryptionKeyRotationDuration = c23Rotation
	o.IndexCacheSize = 1 << 20
	o.BlockCacheSize = 1 << 20
	o.ValueThreshold = 64
	o.ValueLogMaxEntries = 2
	o.NumLevelZeroTables = 1
	o.NumLevelZeroTablesStall = 20
	return o
}

// c23Plaintext scans every file of dir for any of the needles.
func c23Plaintext(dir string, needles []string) string {
	ents, _ := os.ReadDir(dir)
	for _, en := range ents {
		data, _, _, err := readSparse(filepath.Join(dir, en.Name()))
		if err != nil {
			continue
		}
		for _, n := range needles {
			if i := bytes.Index(data, []byte(n)); i >= 0 {
				return fmt.Sprintf("file %s holds the plaintext %q at offset %d", en.Name(), n, i)
			}
		}
	}
	return ""
}

func init() {
	registerEnum("c23enc", func(e *enumCtx) {
		e.journal = true
		maxLen := e.j.Int("len", 4)
		alphabet := strings.Fields(e.j.Str("alphabet", "S B D F C A R K W"))
		keys := [][]byte{[]byte("0123456789abcdef"), []byte("0123456789abcdef01234567"), []byte("0123456789abcdef0123456789abcdef")}
		caseNo := 0
		// several data keys, then six master-key rotations in a row (each rewrites KEYREGISTRY in map
		// order), then a further data-key rotation and writes: everything must stay readable
		for i, mk := range keys {
			mk := mk
			s := strings.Fields("S A F A B F K K K K K K A S F A X B F X A X S F R")
			e.do(fmt.Sprintf("rotations/mk%d", len(mk)), func() (c, d string) {
				inBubble(e.t, func() { c, d = c23Run(e, mk, s) })
				return
			})
			_ = i
		}
		// a rotation interval that is longer than the time since the Unix epoch ("never rotate"): the very
		// first data key must still be created; and a read-only open (op O) after the interval has elapsed
		for _, sc := range []struct {
			name string
			rot  time.Duration
			ops  string
		}{{"rotation100y", 100 * 365 * 24 * time.Hour, "S B F R S F"}, {"rotationmax", time.Duration(1<<63 - 1), "S B F R"}, {"readonly-after-interval", time.Second, "S B F A O S A F O"}} {
			sc := sc
			e.do("scripted/"+sc.name, func() (c, d string) {
				c23Rotation = sc.rot
				defer func() { c23Rotation = time.Second }()
				inBubble(e.t, func() { c, d = c23Run(e, keys[2], strings.Fields(sc.ops)) })
				return
			})
		}
		var rec func(seq []string)
		rec = func(seq []string) {
			if e.stop() {
				return
			}
			if len(seq) > 0 {
				// a history must start with a write and must not repeat a pure maintenance step
				if seq[0] != "S" && seq[0] != "B" {
					return
				}
				caseNo++
				s := append([]string{}, seq...)
				mk := keys[caseNo%3]
				e.do(fmt.Sprintf("mk%d/%s", len(mk), strings.Join(s, ",")), func() (c, d string) {
					inBubble(e.t, func() { c, d = c23Run(e, mk, s) })
					return
				})
			}
			if len(seq) == maxLen {
				return
			}
			for _, op := range alphabet {
				if len(seq) > 0 && seq[len(seq)-1] == op && strings.Contains("FCARKWGX", op) {
					continue
				}
				rec(append(seq, op))
			}
		}
		rec(nil)
	})
}

func c23Run(e *enumCtx, masterKey []byte, seq []string) (string, string) {
	dir := freshDir(e.j)
	defer removeAll(dir)
	type ivKey struct {
		id uint64
		iv string
	}
	seen := map[ivKey]string{}
	ivDup := ""
	y.VerifIVFn = func(kind string, keyID uint64, iv []byte) {
		k := ivKey{keyID, string(iv)}
		if prev, ok := seen[k]; ok && ivDup == "" {
			ivDup = fmt.Sprintf("data key %d and IV %x used for two encryptions (%s, then %s)", keyID, iv, prev, kind)
		}
		seen[k] = kind
	}
	defer func() { y.VerifIVFn = nil }()
	key := masterKey
	db, err := Open(c23Opts(dir, key))
	if err != nil {
		return "c23-open", err.Error()
	}
	defer func() {
		if db != nil {
			_ = db.Close()
		}
	}()
	model := map[string]string{}
	var needles []string
	n := 0
	// after every open: the next data-key id must lie above every id the registry holds (a re-issued
	// id would make everything written under the old key of that id unreadable)
	keyIDs := func() string {
		db.registry.RLock()
		defer db.registry.RUnlock()
		for id := range db.registry.dataKeys {
			if id > db.registry.nextKeyID {
				return fmt.Sprintf("key registry holds data key %d but will hand out id %d next", id, db.registry.nextKeyID+1)
			}
		}
		return ""
	}
	reopen := func(k []byte) string {
		var err error
		db, err = Open(c23Opts(dir, k))
		if err != nil {
			db = nil
			return err.Error()
		}
		synctest.Wait()
		return keyIDs()
	}
	kA, kB := "kEyA-0123456789ab", "kEyB-0123456789ab"
	needles = append(needles, kA, kB)
	for i, op := range seq {
		n++
		var err error
		switch op {
		case "S":
			v := fmt.Sprintf("vAlUe-s%02d-inline-payload", n)
			needles = append(needles, v[:10])
			err = db.Update(func(txn *Txn) error { return txn.Set([]byte(kA), []byte(v)) })
			model[kA] = v
		case "B":
			v := string(val(fmt.Sprintf("vAlUe-b%02d-vlog-", n), 200))
			needles = append(needles, v[:10])
			err = db.Update(func(txn *Txn) error { return txn.Set([]byte(kB), []byte(v)) })
			model[kB] = v
		case "D":
			err = db.Update(func(txn *Txn) error { return txn.Delete([]byte(kA)) })
			delete(model, kA)
		case "F":
			lsmFlush(db)
		case "C":
			runOnceAs(db, 0)
		case "G":
			db.vlog.filesLock.RLock()
			fids := db.vlog.sortedFids()
			maxFid := db.vlog.maxFid
			db.vlog.filesLock.RUnlock()
			if len(fids) > 0 && fids[0] < maxFid {
				db.vlog.discardStats.Update(fids[0], 1<<30)
				if gerr := db.RunValueLogGC(0.01); gerr != nil && gerr != ErrNoRewrite {
					err = gerr
				}
			}
		case "A":
			time.Sleep(2 * time.Second)
		case "X":
			// environment deviation: some caller asks for the latest data key while KEYREGISTRY cannot
			// be written (the descriptor is swapped for a read-only one for this single call).  When a
			// rotation is due the call must fail and leave the registry as it was: the next caller gets a
			// persisted key, never "no key" (which means "write plaintext").
			kr := db.registry
			ro, oerr := os.Open(filepath.Join(dir, KeyRegistryFileName))
			if oerr != nil {
				return "c23-op", oerr.Error()
			}
			kr.Lock()
			saved := kr.fp
			kr.fp = ro
			kr.Unlock()
			dk, xerr := kr.LatestDataKey()
			kr.Lock()
			kr.fp = saved
			kr.Unlock()
			_ = ro.Close()
			if xerr == nil && dk == nil {
				return "enc-no-data-key", fmt.Sprintf("after %v: LatestDataKey returned no key and no error on an encrypted database", seq[:i+1])
			}
			if dk2, e2 := kr.LatestDataKey(); e2 != nil || dk2 == nil {
				return "enc-no-data-key", fmt.Sprintf("after %v: after a failed KEYREGISTRY write (%v) the next LatestDataKey returned key %v, error %v: files would be written in plaintext", seq[:i+1], xerr, dk2, e2)
			}
		case "O":
			// close, open read-only with the same key, read everything, close, re-open read-write
			if err = db.Close(); err != nil {
				break
			}
			db = nil
			ro := c23Opts(dir, key)
			ro.ReadOnly = true
			rdb, rerr := Open(ro)
			if rerr != nil {
				return "enc-readonly-open", fmt.Sprintf("after %v: read-only open with the right key: %v", seq[:i+1], rerr)
			}
			bad := ""
			_ = rdb.View(func(txn *Txn) error {
				for k, w := range model {
					if g := getStr(txn, k); g != w {
						bad = fmt.Sprintf("Get(%s) = %q, want %q", k, shortVal(g), shortVal(w))
					}
				}
				return nil
			})
			_ = rdb.Close()
			if bad != "" {
				return "enc-read-changed", fmt.Sprintf("after %v (read-only): %s", seq[:i+1], bad)
			}
			if s := reopen(key); s != "" {
				return "c23-reopen", fmt.Sprintf("after %v: %s", seq[:i+1], s)
			}
		case "R":
			if err = db.Close(); err == nil {
				if s := reopen(key); s != "" {
					return "c23-reopen", fmt.Sprintf("after %v: %s", seq[:i+1], s)
				}
			}
		case "K":
			if err = db.Close(); err != nil {
				break
			}
			db = nil
			// what `badger rotate` does: open the registry with the old key, write it with the new one
			newKey := append([]byte{}, key...)
			newKey[0] ^= byte(0x40 + n)
			kro := KeyRegistryOptions{Dir: dir, ReadOnly: true, EncryptionKey: key, EncryptionKeyRotationDuration: 10 * 24 * time.Hour}
			kr, kerr := OpenKeyRegistry(kro)
			if kerr != nil {
				return "c23-rotate", "OpenKeyRegistry: " + kerr.Error()
			}
			kro.EncryptionKey = newKey
			if kerr := WriteKeyRegistry(kr, kro); kerr != nil {
				return "c23-rotate", "WriteKeyRegistry: " + kerr.Error()
			}
			_ = kr.Close()
			// the old master key must no longer open the database
			if odb, oerr := Open(c23Opts(dir, key)); oerr == nil {
				_ = odb.Close()
				return "enc-old-key-accepted", fmt.Sprintf("after %v: the database still opens with the master key that was rotated out", seq[:i+1])
			}
			bubbleLeakOK = true
			key = newKey
			if s := reopen(key); s != "" {
				return "enc-rotate-unreadable", fmt.Sprintf("after %v: open with the new master key: %s", seq[:i+1], s)
			}
		case "W":
			if err = db.Close(); err != nil {
				break
			}
			db = nil
			h0 := hashDir(dir)
			wrong := append([]byte{}, key...)
			wrong[len(wrong)-1] ^= 0x55
			wdb, werr := Open(c23Opts(dir, wrong))
			if werr == nil {
				_ = wdb.Close()
				return "enc-wrong-key-accepted", fmt.Sprintf("after %v: Open with a wrong key succeeded", seq[:i+1])
			}
			bubbleLeakOK = true
			if werr != ErrEncryptionKeyMismatch && !strings.Contains(werr.Error(), ErrEncryptionKeyMismatch.Error()) {
				return "enc-wrong-key-error", fmt.Sprintf("after %v: Open with a wrong key returned %v, want ErrEncryptionKeyMismatch", seq[:i+1], werr)
			}
			if h1 := hashDir(dir); h1 != h0 {
				return "enc-wrong-key-modified", fmt.Sprintf("after %v: a refused open changed files:\n  before %s\n  after  %s", seq[:i+1], h0, h1)
			}
			if s := reopen(key); s != "" {
				return "c23-reopen", fmt.Sprintf("after %v: %s", seq[:i+1], s)
			}
		}
		if err != nil {
			return "c23-op", fmt.Sprintf("%s (step %d of %v): %v", op, i, seq, err)
		}
		// (1) reads equal the model, through Get and iteration
		got := map[string]string{}
		verr := db.View(func(txn *Txn) error {
			it := txn.NewIterator(DefaultIteratorOptions)
			defer it.Close()
			for it.Rewind(); it.Valid(); it.Next() {
				v, err := it.Item().ValueCopy(nil)
				if err != nil {
					return err
				}
				got[string(it.Item().Key())] = string(v)
			}
			for _, k := range []string{kA, kB} {
				g := getStr(txn, k)
				w, ok := model[k]
				if !ok {
					w = "<nil>"
				}
				if g != w {
					return fmt.Errorf("Get(%s) = %q, want %q", k, shortVal(g), shortVal(w))
				}
			}
			return nil
		})
		if verr != nil {
			return "enc-read-changed", fmt.Sprintf("after %v: %v", seq[:i+1], verr)
		}
		if fmt.Sprint(got) != fmt.Sprint(model) {
			return "enc-read-changed", fmt.Sprintf("after %v: iteration shows %d keys, model %d", seq[:i+1], len(got), len(model))
		}
		// (2) no plaintext on disk
		if s := c23Plaintext(dir, needles); s != "" {
			return "enc-plaintext-on-disk", fmt.Sprintf("after %v: %s", seq[:i+1], s)
		}
		// (3) IV uniqueness
		if ivDup != "" {
			return "enc-iv-reuse", fmt.Sprintf("after %v: %s", seq[:i+1], ivDup)
		}
	}
	e.r.AddExtra("encryptions", int64(len(seen)))
	ids := map[uint64]bool{}
	for k := range seen {
		ids[k.id] = true
	}
	e.r.AddExtra("data_keys_used", int64(len(ids)))
	return "", ""
}
