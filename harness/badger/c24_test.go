package badger

// C24 — Backup and Load round-trip the database, including incremental chains.
//
// c24seq (E-enum): every history of up to N operations over two keys (set, delete, set with
// discard-earlier-versions, already expired and future-expiry sets, flush, compaction, backup
// point) on a source DB with NumVersionsToKeep 1 and 100.  At every backup point an incremental
// backup is taken with exactly the version the previous one returned; at the end a last
// incremental and a full backup.  The full backup loaded into an empty DB and the chain loaded in
// order into another must both show the source's final visible state; with NumVersionsToKeep 100
// the restored version list of every key equals the source's versions down to and including the
// first delete / expired / discard-earlier entry (plus the delete marker Backup adds below a
// discard-earlier entry).
// c24sched (E-sched): a full backup with two producers races a transfer between two accounts in
// different key ranges; then an incremental backup from the returned version; loading the chain
// must reproduce the source's final state.

import (
	"bytes"
	"encoding/binary"
	"fmt"
	"io"
	"os"
	"runtime"
	"sort"
	"strings"
	"testing/synctest"
	"time"

	"github.com/dgraph-io/badger/v4/pb"
	"github.com/dgraph-io/badger/v4/vshim/sched"
	"google.golang.org/protobuf/proto"
)

type c24Vis struct {
	val   string
	umeta byte
	exp   uint64
}

func c24Visible(db *DB) (map[string]c24Vis, string) {
	out := map[string]c24Vis{}
	txn := db.NewTransaction(false)
	defer txn.Discard()
	it := txn.NewIterator(DefaultIteratorOptions)
	defer it.Close()
	for it.Rewind(); it.Valid(); it.Next() {
		item := it.Item()
		v, err := item.ValueCopy(nil)
		if err != nil {
			return nil, err.Error()
		}
		out[string(item.Key())] = c24Vis{string(v), item.UserMeta(), item.ExpiresAt()}
	}
	// Get must agree with iteration
	for k, w := range out {
		item, err := txn.Get([]byte(k))
		if err != nil {
			return nil, fmt.Sprintf("Get(%q): %v", k, err)
		}
		v, _ := item.ValueCopy(nil)
		if string(v) != w.val {
			return nil, fmt.Sprintf("Get(%q) = %q, iterator %q", k, shortVal(string(v)), shortVal(w.val))
		}
	}
	return out, ""
}

func c24VisStr(m map[string]c24Vis) string {
	ks := make([]string, 0, len(m))
	for k := range m {
		ks = append(ks, k)
	}
	sort.Strings(ks)
	var b strings.Builder
	for _, k := range ks {
		fmt.Fprintf(&b, "%s=%s/um%d/exp%d ", k, shortVal(m[k].val), m[k].umeta, m[k].exp)
	}
	return b.String()
}

// c24Versions: the all-versions dump as comparable strings (value, user meta, expiry, delete,
// discard-earlier flag).
func c24Versions(db *DB, now uint64) map[string][]string {
	out := map[string][]string{}
	txn := db.NewTransaction(false)
	defer txn.Discard()
	opt := DefaultIteratorOptions
	opt.AllVersions = true
	it := txn.NewIterator(opt)
	defer it.Close()
	for it.Rewind(); it.Valid(); it.Next() {
		item := it.Item()
		k := string(item.Key())
		var s string
		switch {
		case item.meta&bitDelete != 0:
			s = fmt.Sprintf("%d:del", item.Version())
		case item.IsDeletedOrExpired():
			s = fmt.Sprintf("%d:expired", item.Version())
		default:
			v, _ := item.ValueCopy(nil)
			s = fmt.Sprintf("%d:%s/um%d/exp%d", item.Version(), shortVal(string(v)), item.UserMeta(), item.ExpiresAt())
		}
		if item.DiscardEarlierVersions() {
			s += "/discard"
		}
		out[k] = append(out[k], s)
	}
	return out
}

// c24ExpectVersions applies Backup's documented per-key rule to the source's version lists.
func c24ExpectVersions(src map[string][]string) map[string][]string {
	out := map[string][]string{}
	for k, vs := range src {
		for _, s := range vs {
			out[k] = append(out[k], s)
			if strings.HasSuffix(s, "/discard") {
				var ver uint64
				fmt.Sscanf(s, "%d:", &ver)
				out[k] = append(out[k], fmt.Sprintf("%d:del", ver-1))
				break
			}
			if strings.HasSuffix(s, ":del") || strings.HasSuffix(s, ":expired") {
				break
			}
		}
	}
	return out
}

func c24VersStr(m map[string][]string) string {
	ks := make([]string, 0, len(m))
	for k := range m {
		ks = append(ks, k)
	}
	sort.Strings(ks)
	var b strings.Builder
	for _, k := range ks {
		fmt.Fprintf(&b, "%s:%v ", k, m[k])
	}
	return b.String()
}

func c24Opts(dir string, nvk int) Options {
	o := smallOpts(dir)
	o.NumVersionsToKeep = nvk
	o.NumLevelZeroTables = 5
	o.NumLevelZeroTablesStall = 10
	o.NumGoroutines = 2
	o.BlockSize = 128
	return o
}

func c24Load(_ any, dir string, nvk int, chain [][]byte) (*DB, string) {
	db, err := Open(c24Opts(dir, nvk))
	if err != nil {
		return nil, "open restore target: " + err.Error()
	}
	for i, b := range chain {
		if err := db.Load(bytes.NewReader(b), 4); err != nil {
			return db, fmt.Sprintf("Load of backup %d: %v", i, err)
		}
	}
	return db, ""
}

func init() {
	registerEnum("c24seq", func(e *enumCtx) {
		e.journal = true
		maxLen := e.j.Int("len", 4)
		alphabet := []string{"Sa", "Sb", "Da", "Ea", "Pa", "La", "F", "C", "K"}
		// scripted histories, longer than the enumerated ones: V is a finished read (it lets the read
		// watermark, which is what compactions discard below, reach the latest commit)
		for _, nvk := range []int{1, 100} {
			for _, sc := range []string{"Sa,K,Da,V,F,C", "Sa,F,C,K,Da,V,F,C", "Sa,K,Pa,V,F,C", "Sa,Sb,K,Da,Sb,V,F,C,K,Sb", "Sa,F,C,Sb,F,C,K,Sb,F,C", "Sa,F,C,Sb,F,C,K,Sb,F,C,K,Sa,F,C"} {
				nvk, s := nvk, strings.Split(sc, ",")
				e.do(fmt.Sprintf("nvk%d/%s", nvk, sc), func() (string, string) { return c24Run(e, nvk, s) })
			}
		}
		for _, nvk := range []int{1, 100} {
			for l := 1; l <= maxLen; l++ {
				nvk, l := nvk, l
				var rec func(seq []string)
				rec = func(seq []string) {
					if e.stop() {
						return
					}
					if len(seq) == l {
						// prune: maintenance/backup steps on an empty history do nothing new
						writes := 0
						for _, op := range seq {
							if op != "F" && op != "C" && op != "K" {
								writes++
							}
						}
						if writes == 0 || seq[0] == "F" || seq[0] == "C" || seq[0] == "K" {
							return
						}
						s := append([]string{}, seq...)
						e.do(fmt.Sprintf("nvk%d/%s", nvk, strings.Join(s, ",")), func() (string, string) { return c24Run(e, nvk, s) })
						return
					}
					for _, op := range alphabet {
						rec(append(seq, op))
					}
				}
				rec(nil)
			}
		}
	})

	type bkState struct {
		full  bytes.Buffer
		since uint64
		err   error
		errs  []string
	}
	registerSched(&schedScenario{
		name:   "c24sched",
		points: []string{"op", "stream.begin", "stream.txn", "stream.range"},
		setup: func(x *schedExec) {
			o := c24Opts(x.dir+"/src", 1)
			x.db = mustOpen(o)
			for _, k := range []string{"acct1", "acct2", "acct3", "acct4"} {
				if err := x.db.Update(func(txn *Txn) error { return txn.Set([]byte(k), val("100|", 100)) }); err != nil {
					panic(err)
				}
			}
			lsmFlush(x.db)
			x.state = &bkState{}
		},
		threads: func(x *schedExec) []sched.Thread {
			st := x.state.(*bkState)
			return []sched.Thread{
				{Name: "Backup", Body: func() {
					x.s.Point("op")
					st.since, st.err = x.db.Backup(&st.full, 0)
				}},
				{Name: "Transfer", Body: func() {
					x.s.Point("op")
					err := x.db.Update(func(txn *Txn) error {
						if err := txn.Set([]byte("acct1"), val("090|", 100)); err != nil {
							return err
						}
						return txn.Set([]byte("acct4"), val("110|", 100))
					})
					if err != nil {
						st.errs = append(st.errs, err.Error())
					}
				}},
			}
		},
		check: func(x *schedExec) (string, string, string) {
			st := x.state.(*bkState)
			if st.err != nil || len(st.errs) > 0 {
				return "", fmt.Sprintf("backup err %v, commit errs %v", st.err, st.errs), "backup-error"
			}
			var incr bytes.Buffer
			if _, err := x.db.Backup(&incr, st.since); err != nil {
				return "", "incremental backup: " + err.Error(), "backup-error"
			}
			want, s := c24Visible(x.db)
			if s != "" {
				return "", s, "backup-read-error"
			}
			rdb, s := c24Load(nil, x.dir+"/restore", 1, [][]byte{st.full.Bytes(), incr.Bytes()})
			if rdb != nil {
				defer rdb.Close()
			}
			if s != "" {
				return "", s, "backup-load-error"
			}
			got, s := c24Visible(rdb)
			if s != "" {
				return "", s, "backup-read-error"
			}
			strip := func(m map[string]c24Vis) string {
				var parts []string
				for _, k := range []string{"acct1", "acct2", "acct3", "acct4"} {
					parts = append(parts, k+"="+strings.SplitN(m[k].val, "|", 2)[0])
				}
				return strings.Join(parts, " ")
			}
			if strip(got) != strip(want) {
				return "", fmt.Sprintf("full backup (returned version %d) + incremental backup restored to {%s}, the source holds {%s}", st.since, strip(got), strip(want)), "backup-chain-state"
			}
			return fmt.Sprintf("since=%d", st.since), "", ""
		},
	})
}

func c24Run(e *enumCtx, nvk int, seq []string) (string, string) {
	root := freshDir(e.j)
	defer removeAll(root)
	src, err := Open(c24Opts(root+"/src", nvk))
	if err != nil {
		return "c24-open", err.Error()
	}
	defer src.Close()
	now := uint64(time.Now().Unix())
	var chain [][]byte
	var since uint64
	n := 0
	backup := func(from uint64) ([]byte, uint64, string) {
		var buf bytes.Buffer
		ts, err := src.Backup(&buf, from)
		if err != nil {
			return nil, 0, err.Error()
		}
		return buf.Bytes(), ts, ""
	}
	for _, op := range seq {
		n++
		k := strings.ToLower(op[1:])
		var err error
		switch op[0] {
		case 'S':
			err = src.Update(func(txn *Txn) error {
				return txn.SetEntry(NewEntry([]byte(k), val(fmt.Sprintf("%s%d|", k, n), 20+50*(n%2))).WithMeta(byte(n)))
			})
		case 'D':
			err = src.Update(func(txn *Txn) error { return txn.Delete([]byte(k)) })
		case 'E':
			err = src.Update(func(txn *Txn) error {
				return txn.SetEntry(NewEntry([]byte(k), []byte(fmt.Sprintf("%s%d|disc", k, n))).WithMeta(byte(n)).WithDiscard())
			})
		case 'P': // already expired when written
			err = src.Update(func(txn *Txn) error {
				en := NewEntry([]byte(k), []byte(fmt.Sprintf("%s%d|past", k, n)))
				en.ExpiresAt = now - 100
				return txn.SetEntry(en)
			})
		case 'L':
			err = src.Update(func(txn *Txn) error {
				en := NewEntry([]byte(k), []byte(fmt.Sprintf("%s%d|ttl", k, n))).WithMeta(byte(n))
				en.ExpiresAt = now + 100000
				return txn.SetEntry(en)
			})
		case 'V':
			_ = src.View(func(txn *Txn) error { return nil })
			for i := 0; src.orc.readMark.DoneUntil() < src.orc.nextTs()-1 && i < 1000000; i++ {
				runtime.Gosched()
			}
		case 'F':
			lsmFlushNoBubble(src)
		case 'C':
			_ = src.lc.doCompact(173, compactionPriority{level: 0, score: 1.73, t: src.lc.levelTargets()})
		case 'K':
			b, ts, s := backup(since)
			if s != "" {
				return "backup-error", s
			}
			chain = append(chain, b)
			if ts > since {
				since = ts
			}
		}
		if err != nil {
			return "c24-write", err.Error()
		}
	}
	b, _, s := backup(since)
	if s != "" {
		return "backup-error", s
	}
	chain = append(chain, b)
	full, fullTs, s := backup(0)
	if s != "" {
		return "backup-error", s
	}
	want, s := c24Visible(src)
	if s != "" {
		return "backup-read-error", s
	}
	srcVers := c24Versions(src, now)
	var maxVer uint64
	for _, vs := range srcVers {
		for _, v := range vs {
			var ver uint64
			fmt.Sscanf(v, "%d:", &ver)
			if ver > maxVer {
				maxVer = ver
			}
		}
	}
	if len(srcVers) > 0 && fullTs != maxVer {
		// the returned version must be the newest version dumped: it is the resume point
		exp := c24ExpectVersions(srcVers)
		var m uint64
		for _, vs := range exp {
			for _, v := range vs {
				var ver uint64
				fmt.Sscanf(v, "%d:", &ver)
				if ver > m {
					m = ver
				}
			}
		}
		if fullTs != m {
			return "backup-version", fmt.Sprintf("full backup returned version %d, newest version dumped %d", fullTs, m)
		}
	}
	check := func(name string, bufs [][]byte, versions bool) (string, string) {
		db, s := c24Load(nil, root+"/"+name, nvk, bufs)
		if db != nil {
			defer db.Close()
		}
		if s != "" {
			return "backup-load-error", s
		}
		got, s := c24Visible(db)
		if s != "" {
			return "backup-read-error", s
		}
		if c24VisStr(got) != c24VisStr(want) {
			class := "backup-" + name + "-state"
			if name == "chain" {
				// known finding F23: the only difference is keys that the source has deleted / let
				// expire after an earlier backup of the chain, where a compaction has already removed the
				// delete marker (and everything below it), so no later incremental backup can carry it
				onlyStale := true
				for k, v := range want {
					if g, ok := got[k]; !ok || g != v {
						onlyStale = false
					}
				}
				stale := 0
				for k := range got {
					if _, ok := want[k]; !ok {
						stale++
						if len(srcVers[k]) != 0 {
							onlyStale = false // the source still holds versions of the key: the marker was there to be backed up
						}
					}
				}
				if onlyStale && stale > 0 {
					class = "backup-chain-state/delete-compacted-away-before-the-next-incremental"
				}
			}
			return class, fmt.Sprintf("%s restored to {%s}, the source shows {%s}\n  source versions: %s", name, c24VisStr(got), c24VisStr(want), c24VersStr(srcVers))
		}
		if versions && nvk > 1 {
			exp := c24VersStr(c24ExpectVersions(srcVers))
			if gv := c24VersStr(c24Versions(db, now)); gv != exp {
				return "backup-versions", fmt.Sprintf("%s restored versions {%s}, expected {%s}", name, gv, exp)
			}
		}
		// C11 post-condition after a crash right after Load: the loaded entries may exist only in the
		// WAL (they are written outside a transaction frame); a copy of the directory taken while
		// the database is open is the crash image
		if maxVer > 0 && name == "full" {
			img := root + "/" + name + "-crash"
			if err := copyDirFlat(root+"/"+name, img); err != nil {
				return "c24-copy", err.Error()
			}
			cdb, err := Open(c24Opts(img, nvk))
			if err != nil {
				return "backup-crash-reopen", fmt.Sprintf("%s: Open of the crash image taken right after Load: %v", name, err)
			}
			// the loaded content must survive the crash as well (Load had returned)
			cgot, cs := c24Visible(cdb)
			if cs != "" {
				_ = cdb.Close()
				return "backup-read-error", cs
			}
			if c24VisStr(cgot) != c24VisStr(want) {
				_ = cdb.Close()
				return "backup-crash-state", fmt.Sprintf("%s: after Load returned, a crash and a re-open the database shows {%s}, the source {%s}", name, c24VisStr(cgot), c24VisStr(want))
			}
			cerr := cdb.Update(func(txn *Txn) error { return txn.Set([]byte("a"), []byte("new")) })
			cts := cdb.orc.nextTs() - 1
			var cv string
			_ = cdb.View(func(txn *Txn) error { cv = getStr(txn, "a"); return nil })
			_ = cdb.Close()
			if cerr != nil {
				return "backup-write-after", cerr.Error()
			}
			if cts <= maxVer || cv != "new" {
				return "backup-stale-ts", fmt.Sprintf("%s: after Load + crash + re-open a new commit got timestamp %d (loaded max version %d) and reads back %q", name, cts, maxVer, cv)
			}
		}
		// C11 post-condition
		if err := db.Update(func(txn *Txn) error { return txn.Set([]byte("a"), []byte("new")) }); err != nil {
			return "backup-write-after", err.Error()
		}
		if ts := db.orc.nextTs() - 1; ts <= maxVer {
			return "backup-stale-ts", fmt.Sprintf("commit after Load got timestamp %d, loaded max version %d", ts, maxVer)
		}
		var v string
		_ = db.View(func(txn *Txn) error { v = getStr(txn, "a"); return nil })
		if v != "new" {
			return "backup-stale-read", fmt.Sprintf("after Load, writing a=new reads %q", v)
		}
		return "", ""
	}
	if c, d := check("full", [][]byte{full}, true); c != "" {
		return c, d
	}
	// the same backup loaded into an InMemory database (values that lived in the source's value log
	// arrive with the value-pointer bit set)
	{
		mo := c24Opts("", nvk)
		mo.InMemory, mo.Dir, mo.ValueDir = true, "", ""
		mo.ValueThreshold = 1 << 10
		mdb, err := Open(mo)
		if err != nil {
			return "c24-open", err.Error()
		}
		lerr := mdb.Load(bytes.NewReader(full), 4)
		var mgot map[string]c24Vis
		var ms string
		if lerr == nil {
			mgot, ms = c24Visible(mdb)
		}
		_ = mdb.Close()
		if lerr != nil {
			return "backup-load-error", "Load into an InMemory database: " + lerr.Error()
		}
		if ms != "" {
			return "backup-inmemory-state", "reading the InMemory database after Load: " + ms
		}
		if c24VisStr(mgot) != c24VisStr(want) {
			return "backup-inmemory-state", fmt.Sprintf("full backup loaded into an InMemory database shows {%s}, the source {%s}", c24VisStr(mgot), c24VisStr(want))
		}
	}
	if c, d := check("chain", chain, false); c != "" {
		return c, d
	}
	// the same full backup restored through the KVLoader interface (what Load uses internally, and
	// what its documentation points to for "more complex" restores): same content, and a later commit
	// gets a timestamp above every restored version, now and after a re-open
	if maxVer > 0 {
		kdir := root + "/kvloader"
		kdb, err := Open(c24Opts(kdir, nvk))
		if err != nil {
			return "c24-open", err.Error()
		}
		ldr := kdb.NewKVLoader(4)
		br := bytes.NewReader(full)
		for br.Len() > 0 {
			var sz uint64
			if err := binary.Read(br, binary.LittleEndian, &sz); err != nil {
				break
			}
			buf := make([]byte, sz)
			if _, err := io.ReadFull(br, buf); err != nil {
				break
			}
			list := &pb.KVList{}
			if err := proto.Unmarshal(buf, list); err != nil {
				_ = kdb.Close()
				return "c24-parse", err.Error()
			}
			for _, kv := range list.Kv {
				if err := ldr.Set(kv); err != nil {
					_ = kdb.Close()
					return "backup-load-error", "KVLoader.Set: " + err.Error()
				}
			}
		}
		if err := ldr.Finish(); err != nil {
			_ = kdb.Close()
			return "backup-load-error", "KVLoader.Finish: " + err.Error()
		}
		kgot, ks := c24Visible(kdb)
		if ks == "" && c24VisStr(kgot) != c24VisStr(want) {
			_ = kdb.Close()
			return "backup-kvloader-state", fmt.Sprintf("restored through KVLoader: a fresh transaction sees {%s}, the source shows {%s}", c24VisStr(kgot), c24VisStr(want))
		}
		kerr := kdb.Update(func(txn *Txn) error { return txn.Set([]byte("a"), []byte("new")) })
		kts := kdb.orc.nextTs() - 1
		_ = kdb.Close()
		if kerr != nil {
			return "backup-write-after", kerr.Error()
		}
		kdb, err = Open(c24Opts(kdir, nvk))
		if err != nil {
			return "backup-kvloader-reopen", err.Error()
		}
		var kv2 string
		_ = kdb.View(func(txn *Txn) error { kv2 = getStr(txn, "a"); return nil })
		_ = kdb.Close()
		if kts <= maxVer || kv2 != "new" {
			return "backup-kvloader-stale-ts", fmt.Sprintf("after a restore through KVLoader (largest restored version %d) a new commit of a=new got timestamp %d; after a re-open a reads %q", maxVer, kts, kv2)
		}
	}
	e.r.AddExtra("backups", int64(len(chain)+1))
	return "", ""
}

// copyDirFlat copies the regular files of src into a fresh directory dst (a page-cache crash image
// when src belongs to an open database).
func copyDirFlat(src, dst string) error {
	if err := os.MkdirAll(dst, 0o755); err != nil {
		return err
	}
	ents, err := os.ReadDir(src)
	if err != nil {
		return err
	}
	for _, e := range ents {
		if e.IsDir() {
			continue
		}
		b, err := os.ReadFile(src + "/" + e.Name())
		if err != nil {
			return err
		}
		if err := os.WriteFile(dst+"/"+e.Name(), b, 0o644); err != nil {
			return err
		}
	}
	return nil
}

// c24load (E-sched): DB.Load of a backup that needs several KVLoader batches, with badger's writer
// goroutine as a scheduled thread (so batches are still queued or half applied while the loader
// builds the next ones), followed by a content comparison.  c34load: after a Load, a committer and
// a reader race; the reader must never start at a timestamp whose commit is still being applied.
func init() {
	type loadState struct {
		backup []byte
		want   map[string]string
		err    error
		h      *hist
	}
	type cached struct {
		b    []byte
		want map[string]string
	}
	cache := map[string]cached{} // the backup is built once per worker process (executions only read it)
	var mkBackup0 func(x *schedExec, n int, vprefix string) ([]byte, map[string]string)
	mkBackup := func(x *schedExec, n int, vprefix string) ([]byte, map[string]string) {
		k := fmt.Sprint(n, vprefix)
		if c, ok := cache[k]; ok {
			return c.b, c.want
		}
		b, w := mkBackup0(x, n, vprefix)
		cache[k] = cached{b, w}
		return b, w
	}
	mkBackup0 = func(x *schedExec, n int, vprefix string) ([]byte, map[string]string) {
		src, err := Open(c24Opts(x.dir+"/src", 1))
		if err != nil {
			panic(err)
		}
		defer src.Close()
		want := map[string]string{}
		for i := 0; i < n; i += 10 {
			err := src.Update(func(txn *Txn) error {
				for j := i; j < i+10 && j < n; j++ {
					k, v := fmt.Sprintf("key-%04d", j), fmt.Sprintf("%s-%04d", vprefix, j)
					want[k] = v
					if err := txn.Set([]byte(k), []byte(v)); err != nil {
						return err
					}
				}
				return nil
			})
			if err != nil {
				panic(err)
			}
		}
		var buf bytes.Buffer
		if _, err := src.Backup(&buf, 0); err != nil {
			panic(err)
		}
		return buf.Bytes(), want
	}
	registerSched(&schedScenario{
		name:   "c24load",
		points: []string{"op", "send.enqueue", "write.vlog", "write.lsm"},
		setup: func(x *schedExec) {
			st := &loadState{}
			st.backup, st.want = mkBackup(x, 250, "value")
			o := c24Opts(x.dir+"/dst", 1)
			o.MemTableSize = 64 << 10 // maxBatchCount is about 100: the 250 keys need three batches
			x.db = mustOpen(o)
			x.state = st
		},
		threads: func(x *schedExec) []sched.Thread {
			st := x.state.(*loadState)
			return []sched.Thread{{Name: "Load", Body: func() {
				x.s.Point("op")
				st.err = x.db.Load(bytes.NewReader(st.backup), 4)
			}}}
		},
		check: func(x *schedExec) (string, string, string) {
			st := x.state.(*loadState)
			if st.err != nil {
				return "", "Load: " + st.err.Error(), "backup-load-error"
			}
			got, s := c24Visible(x.db)
			if s != "" {
				return "", s, "backup-read-error"
			}
			missing, wrong := 0, 0
			for k, v := range st.want {
				g, ok := got[k]
				if !ok {
					missing++
				} else if g.val != v {
					wrong++
				}
			}
			if missing > 0 || wrong > 0 || len(got) != len(st.want) {
				return "", fmt.Sprintf("Load returned nil; of %d keys in the backup %d are missing and %d have another value (%d keys present)", len(st.want), missing, wrong, len(got)), "backup-full-state"
			}
			return fmt.Sprint(len(got)), "", ""
		},
	})
	registerSched(&schedScenario{
		name:   "c34load",
		points: c03Points,
		setup: func(x *schedExec) {
			st := &loadState{}
			st.backup, st.want = mkBackup(x, 20, "init") // c03Check ignores values starting with "init"
			x.db = mustOpen(c24Opts(x.dir+"/dst", 1))
			if err := x.db.Load(bytes.NewReader(st.backup), 4); err != nil {
				panic(err)
			}
			x.state = &c03State{h: &hist{}, keys: []string{"a", "b", "key-0001"}}
		},
		threads: func(x *schedExec) []sched.Thread {
			return []sched.Thread{
				c03Committer(x, "T1", map[string]string{"a": "T1", "b": "T1"}, false),
				c03Reader(x, "R1", 1),
				c03Reader(x, "R2", 1),
			}
		},
		check: func(x *schedExec) (string, string, string) {
			// the loaded keys are not part of the history: only a, b are compared through the history
			st := x.state.(*c03State)
			st.keys = []string{"a", "b"}
			return c03Check(x)
		},
	})
}

// c24trunc (E-enum, inside a bubble): DB.Load of a backup cut at EVERY byte.  Load may fail, but the
// database must stay usable: a later Update and View return (a Load that claimed timestamps and then
// failed must release them), and whatever was loaded reads back consistently (each key absent or with
// its backed-up value).
func init() {
	registerEnum("c24trunc", func(e *enumCtx) {
		var backup []byte
		want := map[string]string{}
		func() {
			dir := freshDir(e.j)
			defer removeAll(dir)
			src := mustOpen(c24Opts(dir, 1))
			defer src.Close()
			for i := 0; i < 4; i++ {
				k, v := fmt.Sprintf("key%d", i), fmt.Sprintf("value-%d", i)
				if err := src.Update(func(txn *Txn) error { return txn.Set([]byte(k), []byte(v)) }); err != nil {
					panic(err)
				}
				want[k] = v
			}
			var buf bytes.Buffer
			if _, err := src.Backup(&buf, 0); err != nil {
				panic(err)
			}
			backup = buf.Bytes()
		}()
		for cut := 0; cut <= len(backup); cut++ {
			cut := cut
			e.do(fmt.Sprintf("cut%d/%d", cut, len(backup)), func() (c, d string) {
				inBubble(e.t, func() {
					dir := freshDir(e.j)
					defer removeAll(dir)
					db := mustOpen(c24Opts(dir, 1))
					closed := false
					defer func() {
						if c != "" {
							bubbleLeakOK = true
						}
						if !closed && c == "" {
							_ = db.Close()
						}
					}()
					lerr := db.Load(bytes.NewReader(backup[:cut]), 4)
					if cut == len(backup) && lerr != nil {
						c, d = "backup-load-error", lerr.Error()
						return
					}
					updated, viewed := false, false
					var uerr error
					got := map[string]string{}
					go func() {
						uerr = db.Update(func(txn *Txn) error { return txn.Set([]byte("after"), []byte("x")) })
						updated = true
						_ = db.View(func(txn *Txn) error {
							for k := range want {
								got[k] = getStr(txn, k)
							}
							return nil
						})
						viewed = true
					}()
					synctest.Wait()
					if !updated || !viewed {
						c, d = "deadlock/after-failed-load", fmt.Sprintf("Load of a backup cut at byte %d of %d returned %v; a later Update/View never returns (update done %v, view done %v): every goroutine of the database is blocked", cut, len(backup), lerr, updated, viewed)
						return
					}
					if uerr != nil {
						c, d = "unexpected-error", fmt.Sprintf("Update after a Load that returned %v: %v", lerr, uerr)
						return
					}
					for k, v := range got {
						if v != "<nil>" && v != want[k] {
							c, d = "backup-partial-value", fmt.Sprintf("cut %d: key %s reads %q, the backup holds %q", cut, k, v, want[k])
							return
						}
						if cut == len(backup) && v != want[k] {
							c, d = "backup-full-state", fmt.Sprintf("key %s reads %q after a complete Load", k, v)
							return
						}
					}
				})
				return
			})
		}
	})
}
