package badger

// "lsm" scenario family (E-seq): managed-mode database, explicit flush / compaction / ageing /
// discard-watermark / reopen transitions.  Oracles: C12 (reads at or above the discard watermark
// never change), C13 (retention), C14 (structure), C36 (managed timestamps), C07 (reopen).

import (
	"bytes"
	"context"
	"crypto/sha1"
	"fmt"
	"os"
	"path/filepath"
	"sort"
	"strings"
	"testing/synctest"
	"time"

	"github.com/dgraph-io/badger/v4/options"
	"github.com/dgraph-io/badger/v4/table"
	"github.com/dgraph-io/badger/v4/y"
)

type mwrite struct {
	Key  string
	Ts   uint64
	Val  string
	Del  bool
	Meta byte // bitDiscardEarlierVersions / bitMergeEntry
	Exp  uint64
}

type lsmState struct {
	opts    Options
	nextTs  uint64
	writes  []mwrite
	discard uint64
	keys    []string
	oracle  string           // which property's oracle is active: c12 c13 c14 c36 c07 all
	created map[uint64]int64 // table id -> virtual creation time (unix nano)
	seqno   int
	pendC   string // violation detected inside a transition (reported by the next check)
	pendD   string
	normal  bool   // normal (oracle-assigned timestamps) mode
	snaps   []*Txn // open snapshot transactions (normal mode)
	held    []heldItem
	dropped []string
}

type heldItem struct {
	txn  *Txn
	item *Item
	key  string
	want string
	it   *Iterator
}

func (st *lsmState) maxTs() uint64 {
	var m uint64
	for _, w := range st.writes {
		if w.Ts > m {
			m = w.Ts
		}
	}
	return m
}

// modelRead: newest write of key with version <= ts; same-version duplicates: last written wins.
func (st *lsmState) modelRead(key string, ts uint64) readObs {
	var best *mwrite
	for i := range st.writes {
		w := &st.writes[i]
		if w.Key != key || w.Ts > ts {
			continue
		}
		if best == nil || w.Ts >= best.Ts {
			best = w
		}
	}
	if best == nil || best.Del || (best.Exp != 0 && best.Exp <= uint64(time.Now().Unix())) {
		return readObs{Val: "<nil>"}
	}
	return readObs{Val: best.Val, Ver: best.Ts}
}

var lsmBigSize = 200

func lsmValue(k string, ts uint64, big bool) string {
	n := 24
	if big {
		n = lsmBigSize
	}
	return string(val(fmt.Sprintf("%s@%d", k, ts), n))
}

func lsmOpts(x *seqExec) Options {
	o := smallOpts(x.dir)
	o.managedTxns = x.j.Str("mode", "managed") != "normal"
	o.ValueLogMaxEntries = uint32(x.j.Int("vlog_max_entries", 1000000))
	o.MemTableSize = int64(x.j.Int("mem_table_size", 64<<10))
	o.BaseTableSize = int64(x.j.Int("table_size", 256))
	o.BaseLevelSize = int64(x.j.Int("base_level_size", 600))
	o.LevelSizeMultiplier = x.j.Int("level_mult", 2)
	o.TableSizeMultiplier = 1
	o.MaxLevels = x.j.Int("max_levels", 4)
	o.NumLevelZeroTables = x.j.Int("l0_tables", 2)
	o.NumLevelZeroTablesStall = 9
	o.NumMemtables = 4
	o.NumVersionsToKeep = x.j.Int("nvk", 1)
	if x.j.Bool("rebloom", false) {
		o.BloomFalsePositive = 0 // start without bloom filters; RF toggles
	}
	o.BlockSize = 128
	o.ValueThreshold = int64(x.j.Int("value_threshold", 64))
	o.LmaxCompaction = true
	if x.j.Bool("inmemory", false) {
		o.InMemory, o.Dir, o.ValueDir = true, "", ""
	}
	o.SyncWrites = x.j.Bool("sync_writes", false)
	switch x.j.Str("compression", "") {
	case "snappy":
		o.Compression = options.Snappy
		o.BlockCacheSize = 1 << 20
	case "zstd":
		o.Compression = options.ZSTD
		o.ZSTDCompressionLevel = 1
		o.BlockCacheSize = 1 << 20
	}
	if x.j.Bool("encrypt", false) {
		o.EncryptionKey = []byte("0123456789abcdef")
		o.BlockCacheSize = 1 << 20
		o.IndexCacheSize = 1 << 20
	}
	return o
}

func lsmOpen(x *seqExec) {
	st := &lsmState{nextTs: 1, created: map[uint64]int64{}}
	st.opts = lsmOpts(x)
	st.oracle = x.j.Str("oracle", "c12")
	lsmBigSize = x.j.Int("big_size", 200)
	st.normal = !st.opts.managedTxns
	nk := x.j.Int("keys", 2)
	if x.j.Str("keyset", "") == "drop" {
		st.keys = []string{"p1a", "p1b", "p2a", "q", "p2b", "qq"}[:nk]
	} else if x.j.Str("keyset", "") == "ten" {
		st.keys = []string{"k0", "k1", "k2", "k3", "k4", "k5", "k6", "k7", "k8", "k9"}[:nk]
	} else {
		st.keys = []string{"a", "b", "c", "d"}[:nk]
	}
	x.st = st
	x.db = mustOpen(st.opts)
}

func lsmClose(x *seqExec) {
	if st, ok := x.st.(*lsmState); ok {
		st.releaseAll()
	}
	if x.db != nil {
		_ = x.db.Close()
	}
}

func (st *lsmState) releaseAll() {
	for _, h := range st.held {
		if h.it != nil {
			h.it.Close()
		}
		h.txn.Discard()
	}
	st.held = nil
	for _, t := range st.snaps {
		t.Discard()
	}
	st.snaps = nil
}

// fixAges gives every table a virtual creation time (file mtimes are real time, the bubble clock
// is virtual) and remembers it across reopen, as the on-disk mtime would.
func (st *lsmState) fixAges(db *DB) {
	now := time.Now()
	for _, l := range db.lc.levels {
		l.RLock()
		for _, t := range l.tables {
			if c, ok := st.created[t.ID()]; ok {
				t.CreatedAt = time.Unix(0, c)
			} else {
				t.CreatedAt = now
				st.created[t.ID()] = now.UnixNano()
			}
		}
		l.RUnlock()
	}
}

func l0Count(db *DB) int { return db.lc.levels[0].numTables() }

// lsmFlush rotates the active memtable exactly as ensureRoomForWrite does and waits for the
// flusher goroutine to put the table into L0.
func lsmFlush(db *DB) bool { return lsmFlushMode(db, false) }

// lsmFlushMode: polling=true is for callers running as a scheduled harness thread (they must not
// call synctest.Wait): they sleep on the virtual clock until the flusher has emptied db.imm.
func lsmFlushMode(db *DB, polling bool) bool {
	db.lock.Lock()
	if db.mt == nil || db.mt.sl.Empty() {
		db.lock.Unlock()
		return false
	}
	select {
	case db.flushChan <- db.mt:
		db.imm = append(db.imm, db.mt)
		var err error
		db.mt, err = db.newMemTable()
		if err != nil {
			panic(err)
		}
	default:
		db.lock.Unlock()
		return false
	}
	db.lock.Unlock()
	if !polling {
		synctest.Wait()
		return true
	}
	for i := 0; i < 100000; i++ {
		db.lock.RLock()
		n := len(db.imm)
		db.lock.RUnlock()
		if n == 0 {
			break
		}
		time.Sleep(time.Millisecond)
	}
	return true
}

// runOnceAs replicates runCompactor's runOnce for compactor id: production picker, production
// doCompact, first success wins.
func runOnceAs(db *DB, id int) (bool, string) {
	s := db.lc
	prios := s.pickCompactLevels(nil)
	if id == 0 {
		idx := -1
		for i, p := range prios {
			if p.level == 0 {
				idx = i
				break
			}
		}
		if idx > 0 {
			out := append([]compactionPriority{}, prios[idx])
			out = append(out, prios[:idx]...)
			out = append(out, prios[idx+1:]...)
			prios = out
		}
	}
	for _, p := range prios {
		if id == 0 && p.level == 0 {
		} else if p.adjusted < 1.0 {
			break
		}
		err := s.doCompact(id, p)
		if err == nil {
			return true, fmt.Sprintf("L%d", p.level)
		}
		if err != errFillTables {
			return false, "ERR:" + err.Error()
		}
	}
	return false, ""
}

func lsmEnabled(x *seqExec) []string {
	st := x.st.(*lsmState)
	var ops []string
	if x.j.Bool("managed_ts", false) {
		// C36: caller-chosen, non-monotonic timestamps (kept >= the discard timestamp: legal use)
		for _, ts := range []uint64{3, 5, 7} {
			if ts < st.discard {
				continue
			}
			ops = append(ops, fmt.Sprintf("M%s%d", st.keys[0], ts))
		}
		for _, ts := range []uint64{3, 5, 7} {
			if ts >= st.discard {
				ops = append(ops, fmt.Sprintf("X%s%d", st.keys[0], ts))
			}
		}
		if 5 >= st.discard {
			ops = append(ops, fmt.Sprintf("W%s%d", st.keys[0], 5))
		}
	} else {
		for _, k := range st.keys {
			ops = append(ops, "S"+k)
		}
		for _, k := range st.keys {
			ops = append(ops, "D"+k)
		}
	}
	if x.j.Bool("multi", false) {
		ops = append(ops, "P")
	}
	if x.j.Bool("bulk", false) {
		ops = append(ops, "U", "Ux", "N", "Nx")
	}
	if x.j.Bool("big", false) {
		ops = append(ops, "B"+st.keys[0])
		if len(st.keys) > 1 {
			ops = append(ops, "B"+st.keys[1])
		}
	}
	if x.j.Bool("ttl", false) {
		ops = append(ops, "L"+st.keys[0])
		if x.j.Bool("big", false) {
			ops = append(ops, "Q"+st.keys[0])
		}
	}
	if st.normal && x.j.Bool("snapshots", true) {
		if len(st.snaps) < x.j.Int("max_snaps", 2) {
			ops = append(ops, "O")
		}
		if len(st.snaps) > 0 {
			ops = append(ops, "X")
		}
	}
	if x.j.Bool("gc", false) {
		ops = append(ops, "G")
		if len(st.held) == 0 {
			ops = append(ops, "K"+st.keys[0], "I"+st.keys[0])
		} else {
			ops = append(ops, "Z")
		}
	}
	if st.oracle == "c13" || x.j.Bool("discard_entries", false) {
		ops = append(ops, "E"+st.keys[0])
	}
	if l0Count(x.db) < st.opts.NumLevelZeroTablesStall-1 {
		ops = append(ops, "F")
	}
	ops = append(ops, "C0", "C1")
	if !st.normal && st.maxTs() > st.discard {
		ops = append(ops, "T")
	}
	ops = append(ops, "A")
	if x.j.Bool("lmax", false) {
		ops = append(ops, "H", "CL")
	}
	if x.j.Bool("reopen", false) && len(st.snaps) == 0 && len(st.held) == 0 {
		ops = append(ops, "R")
		if x.j.Bool("readonly", false) {
			ops = append(ops, "RO")
		}
		if !st.opts.InMemory {
			ops = append(ops, "RC")
		}
		if x.j.Bool("rebase", false) {
			ops = append(ops, "RB") // re-open with a much larger / the original BaseLevelSize
		}
		if x.j.Bool("rebloom", false) {
			ops = append(ops, "RF") // re-open with bloom filters switched on / off (existing tables keep what they were built with)
		}
	}
	if x.j.Bool("closecompact", false) {
		ops = append(ops, "CX")
	}
	if x.j.Bool("drops", false) && len(st.snaps) == 0 && len(st.held) == 0 {
		// Y<prefix,...> = DropPrefix, V = DropAll (documented: not while reads are in progress)
		ops = append(ops, "Yp1", "Yp", "Yp1,q", "Yp1,p2", "Yp1a,p1", "Yp1a,qq", "Yzz", "V")
		if x.j.Bool("bulk", false) {
			ops = append(ops, "Yx", "Yf") // the filler keys of U / Ux
		}
	}
	if only := x.j.Str("ops", ""); only != "" {
		allow := map[string]bool{}
		for _, o := range strings.Fields(only) {
			allow[o] = true
		}
		var f []string
		for _, o := range ops {
			if allow[o] {
				f = append(f, o)
			}
		}
		ops = f
	}
	return ops
}

func lsmApply(x *seqExec, op string) bool {
	st := x.st.(*lsmState)
	db := x.db
	defer func() { st.fixAges(x.db) }()
	switch op[0] {
	case 'S', 'B', 'D', 'E', 'L', 'Q':
		// S set, B big (value log) set, D delete, E set with discard-earlier-versions, L set with TTL
		k := op[1:]
		ts := st.nextTs
		st.nextTs++
		var txn *Txn
		if st.normal {
			txn = db.NewTransaction(true)
		} else {
			txn = db.NewTransactionAt(ts, true)
		}
		w := mwrite{Key: k, Ts: ts}
		var err error
		isBig := op[0] == 'B' || op[0] == 'Q' // Q: a value-log value with a TTL
		mkval := func(ts uint64) string { return lsmValue(k, ts, isBig) }
		if st.normal {
			// the commit timestamp is not known yet: tag the value with the write ordinal
			mkval = func(uint64) string { return lsmValue(k, uint64(len(st.writes)+1), isBig) }
		}
		switch op[0] {
		case 'D':
			w.Del = true
			err = txn.Delete([]byte(k))
		case 'E':
			w.Val = mkval(ts)
			w.Meta = bitDiscardEarlierVersions
			err = txn.SetEntry(NewEntry([]byte(k), []byte(w.Val)).WithDiscard())
		case 'L', 'Q':
			w.Val = mkval(ts)
			e := NewEntry([]byte(k), []byte(w.Val)).WithTTL(5 * time.Second)
			w.Exp = e.ExpiresAt
			err = txn.SetEntry(e)
		default:
			w.Val = mkval(ts)
			err = txn.Set([]byte(k), []byte(w.Val))
		}
		if err != nil {
			panic(err)
		}
		if st.normal {
			if err := txn.Commit(); err != nil {
				panic(fmt.Sprintf("commit %s: %v", op, err))
			}
			w.Ts = db.orc.nextTs() - 1
		} else if err := txn.CommitAt(ts, nil); err != nil {
			panic(fmt.Sprintf("commit %s: %v", op, err))
		}
		st.writes = append(st.writes, w)
		return true
	case 'P': // one transaction writing every key (atomic multi-key commit)
		ts := st.nextTs
		st.nextTs++
		var txn *Txn
		if st.normal {
			txn = db.NewTransaction(true)
		} else {
			txn = db.NewTransactionAt(ts, true)
		}
		var ws []mwrite
		for _, k := range st.keys {
			w := mwrite{Key: k, Ts: ts, Val: lsmValue(k, uint64(len(st.writes)+1), false)}
			if err := txn.Set([]byte(k), []byte(w.Val)); err != nil {
				panic(err)
			}
			ws = append(ws, w)
		}
		if st.normal {
			if err := txn.Commit(); err != nil {
				panic(err)
			}
			ts = db.orc.nextTs() - 1
		} else if err := txn.CommitAt(ts, nil); err != nil {
			panic(err)
		}
		for _, w := range ws {
			w.Ts = ts
			st.writes = append(st.writes, w)
		}
		return true
	case 'U': // bulk: one transaction writing 10 filler keys with 400-byte values (fattens the next table)
		ts := st.nextTs
		st.nextTs++
		var txn *Txn
		if st.normal {
			txn = db.NewTransaction(true)
		} else {
			txn = db.NewTransactionAt(ts, true)
		}
		for i := 0; i < 10; i++ {
			pfx := "f"
			if len(op) > 1 {
				pfx = op[1:]
			}
			if err := txn.Set([]byte(fmt.Sprintf("%s%d", pfx, i)), val(fmt.Sprintf("fill%d@%d|", i, ts), 400)); err != nil {
				panic(err)
			}
		}
		if st.normal {
			if err := txn.Commit(); err != nil {
				panic(err)
			}
		} else if err := txn.CommitAt(ts, nil); err != nil {
			panic(err)
		}
		return true
	case 'N': // one transaction deleting the 10 filler keys of U / U<prefix>
		ts := st.nextTs
		st.nextTs++
		var txn *Txn
		if st.normal {
			txn = db.NewTransaction(true)
		} else {
			txn = db.NewTransactionAt(ts, true)
		}
		pfx := "f"
		if len(op) > 1 {
			pfx = op[1:]
		}
		for i := 0; i < 10; i++ {
			if err := txn.Delete([]byte(fmt.Sprintf("%s%d", pfx, i))); err != nil {
				panic(err)
			}
		}
		if st.normal {
			if err := txn.Commit(); err != nil {
				panic(err)
			}
		} else if err := txn.CommitAt(ts, nil); err != nil {
			panic(err)
		}
		return true
	case 'O': // open a snapshot (read-only transaction kept open)
		st.snaps = append(st.snaps, db.NewTransaction(false))
		return true
	case 'X':
		if op == "X" { // close the oldest snapshot
			st.snaps[0].Discard()
			st.snaps = st.snaps[1:]
			return true
		}
		return st.applyManagedTs(db, op)
	case 'M', 'W':
		return st.applyManagedTs(db, op)
	case 'K', 'I': // hold a Get item (K) / an iterator item (I) of key in a transaction that stays open
		k := op[1:]
		var txn *Txn
		if st.normal {
			txn = db.NewTransaction(false)
		} else {
			txn = db.NewTransactionAt(st.maxTs(), false)
		}
		h := heldItem{txn: txn, key: k}
		if op[0] == 'K' {
			it, err := txn.Get([]byte(k))
			if err != nil {
				txn.Discard()
				return false
			}
			h.item = it
		} else {
			o := DefaultIteratorOptions
			o.PrefetchValues = false
			h.it = txn.NewIterator(o)
			h.it.Seek([]byte(k))
			if !h.it.Valid() || string(h.it.Item().Key()) != k {
				h.it.Close()
				txn.Discard()
				return false
			}
			h.item = h.it.Item()
		}
		v, err := h.item.ValueCopy(nil)
		if err != nil {
			panic(err)
		}
		h.want = string(v)
		st.held = append(st.held, h)
		return true
	case 'Z': // release held items
		for _, h := range st.held {
			if h.it != nil {
				h.it.Close()
			}
			h.txn.Discard()
		}
		st.held = nil
		return true
	case 'G': // value-log GC of the oldest sealed file; discard statistics are forced (any file below the active one may be picked)
		db.vlog.filesLock.RLock()
		fids := db.vlog.sortedFids()
		maxFid := db.vlog.maxFid
		db.vlog.filesLock.RUnlock()
		if len(fids) == 0 || fids[0] >= maxFid {
			return false
		}
		db.vlog.discardStats.Update(fids[0], 1<<30)
		err := db.RunValueLogGC(0.01)
		if err != nil && err != ErrNoRewrite {
			panic(fmt.Sprintf("RunValueLogGC: %v", err))
		}
		return err == nil
	case 'F':
		return lsmFlush(db)
	case 'C':
		switch op {
		case "C0":
			ok, _ := runOnceAs(db, 0)
			return ok
		case "C1":
			ok, _ := runOnceAs(db, 1)
			return ok
		case "CL":
			p := compactionPriority{level: db.lc.lastLevel().level, t: db.lc.levelTargets()}
			return db.lc.doCompact(2, p) == nil
		case "CX":
			return db.lc.doCompact(173, compactionPriority{level: 0, score: 1.73}) == nil
		}
	case 'Y', 'V':
		var prefixes [][]byte
		match := func(k string) bool { return true }
		if op[0] == 'Y' {
			ps := strings.Split(op[1:], ",")
			for _, p := range ps {
				prefixes = append(prefixes, []byte(p))
			}
			match = func(k string) bool {
				for _, p := range ps {
					if strings.HasPrefix(k, p) {
						return true
					}
				}
				return false
			}
			if err := db.DropPrefix(prefixes...); err != nil {
				panic(fmt.Sprintf("DropPrefix(%s): %v", op[1:], err))
			}
		} else if err := db.DropAll(); err != nil {
			panic(fmt.Sprintf("DropAll: %v", err))
		}
		synctest.Wait()
		kept := st.writes[:0]
		removed := false
		for _, w := range st.writes {
			if match(w.Key) {
				removed = true
				continue
			}
			kept = append(kept, w)
		}
		st.writes = kept
		st.dropped = append(st.dropped, op)
		return removed
	case 'T':
		m := st.maxTs()
		if m <= st.discard {
			return false
		}
		st.discard = m
		db.SetDiscardTs(m)
		return true
	case 'A':
		time.Sleep(11 * time.Second)
		return true
	case 'H':
		time.Sleep(61 * time.Minute)
		return true
	case 'R':
		before := dumpString(dumpAllInternal(db))
		if op == "RO" {
			return st.readOnlyCycle(x, before)
		}
		defer func() {
			if x.db != nil && st.pendC == "" {
				if after := dumpString(dumpAllInternal(x.db)); after != before && !st.opts.CompactL0OnClose {
					st.pendC, st.pendD = "reopen-changed-content", fmt.Sprintf("all-versions dump before Close: %s\n  after re-open: %s", before, after)
				}
			}
		}()
		if err := db.Close(); err != nil {
			panic(fmt.Sprintf("close: %v", err))
		}
		x.db = nil
		if op == "RB" {
			// re-open with another compaction setting: the base level is computed from BaseLevelSize
			if st.opts.BaseLevelSize < 1<<20 {
				st.opts.BaseLevelSize = 1 << 20
			} else {
				st.opts.BaseLevelSize = int64(x.j.Int("base_level_size", 600))
			}
		}
		if op == "RF" {
			if st.opts.BloomFalsePositive == 0 {
				st.opts.BloomFalsePositive = 0.01
			} else {
				st.opts.BloomFalsePositive = 0
			}
		}
		if op == "RC" {
			// re-open with another compression setting: existing tables keep the one recorded for them
			if st.opts.Compression == options.None {
				st.opts.Compression = options.Snappy
				st.opts.BlockCacheSize = 1 << 20
			} else {
				st.opts.Compression = options.None
			}
		}
		var ndb *DB
		var err error
		if st.opts.managedTxns {
			ndb, err = OpenManaged(st.opts)
		} else {
			ndb, err = Open(st.opts)
		}
		if err != nil {
			st.pendC, st.pendD = "reopen-failed", fmt.Sprintf("Open after a clean Close (op %s) failed: %v", op, err)
			bubbleLeakOK = true
			// carry on with a fresh handle so that the execution can be torn down
			st.opts.Dir, st.opts.ValueDir = x.dir+"/after-failed-reopen", x.dir+"/after-failed-reopen"
			x.db = mustOpen(st.opts)
			return true
		}
		x.db = ndb
		if !st.opts.managedTxns {
			// The newest commit timestamps may have been held only by versions that are legitimately
			// gone (keys of a dropped prefix; a delete marker compacted away together with everything
			// below it): the re-opened database then continues from a smaller timestamp.  Nothing is
			// readable at the lost timestamps, so the model forgets the fully deleted keys and reads
			// "latest" from here on.
			if newMax := ndb.orc.nextTs() - 1; newMax < st.maxTs() {
				dead := map[string]bool{}
				for _, w := range st.writes {
					dead[w.Key] = st.modelRead(w.Key, ^uint64(0)).Val == "<nil>"
				}
				var kept []mwrite
				for _, w := range st.writes {
					if !dead[w.Key] {
						kept = append(kept, w)
					}
				}
				st.writes = kept
			}
		}
		if st.discard > 0 && st.opts.managedTxns {
			ndb.SetDiscardTs(st.discard)
		}
		synctest.Wait()
		return true
	}
	panic("unknown op " + op)
}

// dumpAllInternal: every retained version of every key including internal (!badger!) keys.
func dumpAllInternal(db *DB) map[string][]verEntry {
	out := map[string][]verEntry{}
	var txn *Txn
	if db.opt.managedTxns {
		txn = db.NewTransactionAt(^uint64(0), false)
	} else {
		txn = db.NewTransaction(false)
	}
	defer txn.Discard()
	opt := DefaultIteratorOptions
	opt.AllVersions, opt.InternalAccess = true, true
	it := txn.NewIterator(opt)
	defer it.Close()
	for it.Rewind(); it.Valid(); it.Next() {
		item := it.Item()
		k := string(item.Key())
		e := verEntry{Ver: item.Version(), Deleted: item.IsDeletedOrExpired(), UMeta: item.UserMeta(), Expires: item.ExpiresAt()}
		if !e.Deleted {
			v, err := item.ValueCopy(nil)
			if err != nil {
				e.Val = "ERR:" + err.Error()
			} else {
				e.Val = string(v)
			}
		}
		out[k] = append(out[k], e)
	}
	return out
}

func hashDir(dir string) string {
	ents, _ := os.ReadDir(dir)
	var b strings.Builder
	for _, e := range ents {
		data, size, _, err := readSparse(filepath.Join(dir, e.Name()))
		if err != nil {
			fmt.Fprintf(&b, "%s:ERR;", e.Name())
			continue
		}
		// logical content: readSparse ends at the last allocated extent, and merely reading a hole
		// through a mapping can allocate (zero) pages, so trailing zeros are not part of the identity
		h := sha1.Sum(bytes.TrimRight(data, "\x00"))
		fmt.Fprintf(&b, "%s:%d:%x;", e.Name(), size, h[:8])
	}
	return b.String()
}

// readOnlyCycle: close, open read-only, read everything, close: no file may be created, deleted
// or modified; then re-open read-write (same content).
func (st *lsmState) readOnlyCycle(x *seqExec, before string) bool {
	if err := x.db.Close(); err != nil {
		panic(err)
	}
	x.db = nil
	h0 := hashDir(st.opts.Dir)
	ro := st.opts
	ro.ReadOnly = true
	var db *DB
	var err error
	if ro.managedTxns {
		db, err = OpenManaged(ro)
	} else {
		db, err = Open(ro)
	}
	if err != nil {
		st.pendC, st.pendD = "readonly-open-failed", fmt.Sprintf("read-only Open after a clean Close: %v", err)
		bubbleLeakOK = true
	} else {
		got := dumpString(dumpAllInternal(db))
		_ = db.Close()
		if got != before {
			st.pendC, st.pendD = "readonly-content", fmt.Sprintf("read-only open shows %s, before Close %s", got, before)
		}
	}
	if h1 := hashDir(st.opts.Dir); h1 != h0 && st.pendC == "" {
		st.pendC, st.pendD = "readonly-modified-files", fmt.Sprintf("files before the read-only open: %s\n  after: %s", h0, h1)
	}
	if ro.managedTxns {
		x.db, err = OpenManaged(st.opts)
	} else {
		x.db, err = Open(st.opts)
	}
	if err != nil {
		panic(fmt.Sprintf("REOPEN FAILED: %v", err))
	}
	if st.discard > 0 && st.opts.managedTxns {
		x.db.SetDiscardTs(st.discard)
	}
	synctest.Wait()
	return true
}

// checkNoFiles (C37): an in-memory DB never opens a regular file for writing and leaves the
// working directory untouched.
func checkNoFiles(x *seqExec) (string, string) {
	ents, _ := os.ReadDir("/proc/self/fd")
	for _, e := range ents {
		t, err := os.Readlink("/proc/self/fd/" + e.Name())
		if err != nil || !strings.HasPrefix(t, "/") {
			continue
		}
		if strings.HasPrefix(t, "/dev/") && !strings.HasPrefix(t, "/dev/shm/") || strings.HasPrefix(t, "/proc/") {
			continue
		}
		fi, err := os.Stat(t)
		if err != nil || !fi.Mode().IsRegular() {
			continue
		}
		if strings.HasSuffix(t, ".children") || strings.HasSuffix(t, ".test") || strings.Contains(t, "/jobs/") {
			continue // the harness's own files
		}
		return "inmemory-file-open", fmt.Sprintf("in-memory DB process holds an open regular file: %s", t)
	}
	if ents, err := os.ReadDir(x.dir); err == nil && len(ents) > 0 {
		return "inmemory-file-created", fmt.Sprintf("scratch directory %s is not empty: %v", x.dir, ents[0].Name())
	}
	return "", ""
}

// applyManagedTs: C36 operations with caller-chosen timestamps: M<k><ts> set, X<k><ts> delete,
// W<k><ts> SetEntryAt through a managed write batch.
func (st *lsmState) applyManagedTs(db *DB, op string) bool {
	k := op[1:2]
	var ts uint64
	fmt.Sscanf(op[2:], "%d", &ts)
	st.seqno++
	w := mwrite{Key: k, Ts: ts, Val: string(val(fmt.Sprintf("%s@%d#%d", k, ts, st.seqno), 24)), Del: op[0] == 'X'}
	if op[0] == 'W' {
		wb := db.NewManagedWriteBatch()
		if err := wb.SetEntryAt(NewEntry([]byte(k), []byte(w.Val)), ts); err != nil {
			panic(err)
		}
		if err := wb.Flush(); err != nil {
			panic(err)
		}
	} else {
		txn := db.NewTransactionAt(ts, true)
		var err error
		if w.Del {
			err = txn.Delete([]byte(k))
		} else {
			err = txn.Set([]byte(k), []byte(w.Val))
		}
		if err != nil {
			panic(err)
		}
		if err := txn.CommitAt(ts, nil); err != nil {
			panic(fmt.Sprintf("commit %s: %v", op, err))
		}
	}
	st.writes = append(st.writes, w)
	return true
}

type tblDump struct {
	ID      uint64
	Level   int
	Entries []string // key@ver:meta
	Small   string
	Big     string
	Age     int // 0: <10s 1: >=10s 2: >=1h
	Size    int64
}

func dumpTable(t *table.Table, level int) tblDump {
	d := tblDump{ID: t.ID(), Level: level, Small: string(t.Smallest()), Big: string(t.Biggest()), Size: t.Size()}
	it := t.NewIterator(0)
	defer it.Close()
	for it.Rewind(); it.Valid(); it.Next() {
		v := it.Value()
		d.Entries = append(d.Entries, fmt.Sprintf("%s@%d:%x", y.ParseKey(it.Key()), y.ParseTs(it.Key()), v.Meta&^bitValuePointer))
	}
	age := time.Since(t.CreatedAt)
	switch {
	case age >= time.Hour:
		d.Age = 2
	case age >= 10*time.Second:
		d.Age = 1
	}
	return d
}

func dumpLevels(db *DB) [][]tblDump {
	out := make([][]tblDump, len(db.lc.levels))
	for i, l := range db.lc.levels {
		l.RLock()
		for _, t := range l.tables {
			out[i] = append(out[i], dumpTable(t, i))
		}
		l.RUnlock()
	}
	return out
}

func dumpMem(db *DB) []string {
	var out []string
	db.lock.RLock()
	defer db.lock.RUnlock()
	mts := append([]*memTable{}, db.imm...)
	if db.mt != nil {
		mts = append(mts, db.mt)
	}
	for i, mt := range mts {
		it := mt.sl.NewUniIterator(false)
		for it.Rewind(); it.Valid(); it.Next() {
			v := it.Value()
			out = append(out, fmt.Sprintf("m%d:%s@%d:%x", i, y.ParseKey(it.Key()), y.ParseTs(it.Key()), v.Meta&^bitValuePointer))
		}
		it.Close()
	}
	return out
}

// lsmKey: canonical state key.  Versions are renamed to their rank among the versions present
// (plus the discard watermark's position), see DESIGN.md §2.4 for the soundness argument.
func lsmKey(x *seqExec) string {
	st := x.st.(*lsmState)
	lv := dumpLevels(x.db)
	mem := dumpMem(x.db)
	var b strings.Builder
	vers := map[uint64]bool{}
	collect := func(e string) {
		at := strings.LastIndexByte(e, '@')
		colon := strings.LastIndexByte(e, ':')
		var v uint64
		fmt.Sscanf(e[at+1:colon], "%d", &v)
		vers[v] = true
	}
	for _, e := range mem {
		collect(e)
	}
	for _, l := range lv {
		for _, t := range l {
			for _, e := range t.Entries {
				collect(e)
			}
		}
	}
	var vs []uint64
	for v := range vers {
		vs = append(vs, v)
	}
	sort.Slice(vs, func(i, j int) bool { return vs[i] < vs[j] })
	rank := map[uint64]int{}
	for i, v := range vs {
		rank[v] = i + 1
		if x.j.Bool("managed_ts", false) {
			rank[v] = int(v) // explicit timestamps: later writes may fall between existing versions
		}
	}
	ren := func(e string) string {
		at := strings.LastIndexByte(e, '@')
		colon := strings.LastIndexByte(e, ':')
		var v uint64
		fmt.Sscanf(e[at+1:colon], "%d", &v)
		return fmt.Sprintf("%s@%d%s", e[:at], rank[v], e[colon:])
	}
	dpos := sort.Search(len(vs), func(i int) bool { return vs[i] > st.discard })
	if x.j.Bool("managed_ts", false) {
		dpos = int(st.discard)
	}
	fmt.Fprintf(&b, "D%d|", dpos)
	if st.opts.BaseLevelSize >= 1<<20 {
		b.WriteString("bigbase|")
	}
	if x.j.Bool("rebloom", false) {
		fmt.Fprintf(&b, "bloom%v|", st.opts.BloomFalsePositive > 0)
	}
	for _, sn := range st.snaps {
		fmt.Fprintf(&b, "snap%d,", sort.Search(len(vs), func(i int) bool { return vs[i] > sn.ReadTs() }))
	}
	for _, h := range st.held {
		fmt.Fprintf(&b, "held%s%v,", h.key, h.it != nil)
	}
	if !x.db.opt.InMemory && x.j.Bool("gc", false) {
		x.db.vlog.filesLock.RLock()
		for i, fid := range x.db.vlog.sortedFids() {
			fmt.Fprintf(&b, "v%d:%d,", i, x.db.vlog.filesMap[fid].size.Load())
		}
		x.db.vlog.filesLock.RUnlock()
	}
	// expiring versions: which are expired now
	now := uint64(time.Now().Unix())
	for _, w := range st.writes {
		if w.Exp != 0 {
			fmt.Fprintf(&b, "x%d:%v,", rank[w.Ts], w.Exp <= now)
		}
	}
	for _, e := range mem {
		b.WriteString(ren(e))
		b.WriteByte(',')
	}
	for i, l := range lv {
		fmt.Fprintf(&b, "|L%d:", i)
		for _, t := range l {
			big := 0
			if i == 0 && t.Size >= 2*st.opts.MemTableSize {
				big = 1
			}
			fmt.Fprintf(&b, "[a%db%d ", t.Age, big)
			for _, e := range t.Entries {
				b.WriteString(ren(e))
				b.WriteByte(',')
			}
			b.WriteByte(']')
		}
	}
	return b.String()
}

func shapeString(db *DB) string {
	var b strings.Builder
	t := db.lc.levelTargets()
	fmt.Fprintf(&b, "[base L%d;", t.baseLevel)
	for i, l := range db.lc.levels {
		if n := l.numTables(); n > 0 {
			fmt.Fprintf(&b, " L%d:%d tables/%dB(target %d)", i, n, l.getTotalSize(), t.targetSz[i])
		}
	}
	b.WriteString("] ")
	for _, e := range dumpMem(db) {
		b.WriteString(e + " ")
	}
	for i, l := range dumpLevels(db) {
		if len(l) == 0 {
			continue
		}
		fmt.Fprintf(&b, "| L%d:", i)
		for _, t := range l {
			fmt.Fprintf(&b, " #%d(age%d)%v", t.ID, t.Age, t.Entries)
		}
	}
	return b.String()
}

// ---------------------------------------------------------------------------------------
// oracles

func lsmReadAt(db *DB, keys []string, ts uint64) (get map[string]readObs, fwd, rev map[string]readObs) {
	txn := db.NewTransactionAt(ts, false)
	defer txn.Discard()
	get = readKeys(txn, keys)
	fwd = iterKeys(txn, false, true)
	rev = iterKeys(txn, true, false)
	return
}

// txnReads reads every key through Get, a forward (prefetching) and a reverse (non-prefetching)
// iterator of txn and compares with the model at ts.
func (st *lsmState) txnReads(x *seqExec, txn *Txn, ts uint64, who string) (string, string) {
	get := readKeys(txn, st.keys)
	fwd := iterKeys(txn, false, true)
	rev := iterKeys(txn, true, false)
	for _, k := range st.keys {
		want := st.modelRead(k, ts)
		if got := get[k]; got != want {
			return st.resurrectClass(x, k, got, want, "read-changed/get"), fmt.Sprintf("%s: Get(%q)@%d = %v, model %v\n  lsm: %s", who, k, ts, fmtObs(got), fmtObs(want), shapeString(x.db))
		}
		for name, m := range map[string]map[string]readObs{"forward": fwd, "reverse": rev} {
			got, ok := m[k]
			if !ok {
				got = readObs{Val: "<nil>"}
			}
			if got != want {
				return st.resurrectClass(x, k, got, want, "read-changed/iter"), fmt.Sprintf("%s: %s iterator key %q@%d = %v, model %v\n  lsm: %s", who, name, k, ts, fmtObs(got), fmtObs(want), shapeString(x.db))
			}
		}
	}
	return "", ""
}

// resurrectClass refines the failure class when a deleted key reads back a value after a
// value-log GC ran later than the delete (the GC write-back re-inserts the old version on top of
// the LSM tree, where it outlives the tombstone: known finding F12).
func (st *lsmState) resurrectClass(x *seqExec, k string, got, want readObs, class string) string {
	if want.Val != "<nil>" || got.Val == "<nil>" {
		return class
	}
	lastDel, lastGC := -1, -1
	for i, op := range x.trace {
		if op == "D"+k {
			lastDel = i
		}
		if op == "G" {
			lastGC = i
		}
	}
	if lastDel >= 0 && lastGC > lastDel {
		return "deleted-key-resurrected/tombstone-dropped-after-gc"
	}
	return class
}

// staleDuplicateClass refines the failure class of known finding F20: the same key AND version sits in
// two level-0 tables (a value-log GC rewrite re-inserts key@version with a new value pointer), an
// L0->L0 compaction left the recent table out and put its merged output "in front" of it, and the
// read returns the older copy (whose value pointer leads into a value-log file that is gone).  The
// class applies only when the version read is the right one, the value is not, and that key@version
// is present in more than one level-0 table.
func (st *lsmState) staleDuplicateClass(x *seqExec, k string, got, want readObs) string {
	if want.Val == "<nil>" || got.Ver != want.Ver || got.Val == want.Val {
		return ""
	}
	n := 0
	for _, t := range dumpLevels(x.db)[0] {
		for _, e := range t.Entries {
			if strings.HasPrefix(e, fmt.Sprintf("%s@%d:", k, want.Ver)) {
				n++
			}
		}
	}
	if n >= 2 {
		return "same-version-duplicate/older-copy-wins-after-l0-to-l0"
	}
	return ""
}

// managedResurrectClass refines the failure class of known finding F18: in managed mode a delete
// marker at version V was physically dropped by a compaction (it is at or below the discard
// timestamp and nothing BELOW it overlaps), while an older version of the key that the caller
// committed LATER (non-monotonic timestamps) sits above it in a memtable / upper level and is now
// what a read at >= V returns.  The class applies only when all of that is the case: the model reads
// deleted, the value read is an older version written after the delete marker, and the marker is no
// longer anywhere in the tree.
func (st *lsmState) managedResurrectClass(x *seqExec, k string, ts uint64, got, want readObs, class string) string {
	if c := st.staleDuplicateClass(x, k, got, want); c != "" {
		return c
	}
	if want.Val != "<nil>" || got.Val == "<nil>" {
		return class
	}
	delIdx, delTs := -1, uint64(0)
	for i, w := range st.writes {
		if w.Key == k && w.Ts <= ts && w.Ts >= delTs {
			delTs = w.Ts
			if w.Del {
				delIdx = i
			} else {
				delIdx = -1
			}
		}
	}
	if delIdx < 0 || delTs > st.discard {
		return class
	}
	if strings.Contains(shapeString(x.db), fmt.Sprintf("%s@%d:", k, delTs)) {
		return class // the marker is still there: something else is wrong
	}
	for i, w := range st.writes {
		if w.Key == k && !w.Del && w.Ts == got.Ver && w.Ts < delTs && i > delIdx {
			return "deleted-key-resurrected/managed-older-version-committed-after-dropped-tombstone"
		}
	}
	return class
}

func fmtObs(o readObs) string { return fmt.Sprintf("{%s v%d}", shortVal(o.Val), o.Ver) }

// lsmCheckReadsNormal: normal mode.  A fresh transaction sees the latest state; every open
// snapshot still sees exactly the state at its read timestamp; every held item still yields the
// value it had when it was obtained.
func lsmCheckReadsNormal(x *seqExec) (string, string) {
	st := x.st.(*lsmState)
	txn := x.db.NewTransaction(false)
	c, d := st.txnReads(x, txn, txn.ReadTs(), "fresh transaction")
	txn.Discard()
	if c != "" {
		return c, d
	}
	for i, sn := range st.snaps {
		if c, d := st.txnReads(x, sn, sn.ReadTs(), fmt.Sprintf("snapshot %d (readTs %d)", i, sn.ReadTs())); c != "" {
			return "snapshot-" + c, d
		}
	}
	for _, h := range st.held {
		v, err := h.item.ValueCopy(nil)
		kind := "get"
		if h.it != nil {
			kind = "iterator"
		}
		if err != nil || string(v) != h.want {
			return "held-item-unreadable/" + kind, fmt.Sprintf("%s item of key %q obtained earlier in a still-open transaction now reads %q (err %v), it read %q when obtained\n  lsm: %s", kind, h.key, shortVal(string(v)), err, shortVal(h.want), shapeString(x.db))
		}
	}
	return "", ""
}

func lsmCheckReads(x *seqExec) (string, string) {
	st := x.st.(*lsmState)
	if st.normal {
		return lsmCheckReadsNormal(x)
	}
	for _, h := range st.held {
		v, err := h.item.ValueCopy(nil)
		kind := "get"
		if h.it != nil {
			kind = "iterator"
		}
		if err != nil || string(v) != h.want {
			return "held-item-unreadable/" + kind, fmt.Sprintf("%s item of key %q obtained earlier in a still-open transaction now reads %q (err %v), it read %q when obtained", kind, h.key, shortVal(string(v)), err, shortVal(h.want))
		}
	}
	hi := st.maxTs() + 1
	lo := st.discard
	for ts := lo; ts <= hi; ts++ {
		get, fwd, rev := lsmReadAt(x.db, st.keys, ts)
		for _, k := range st.keys {
			want := st.modelRead(k, ts)
			if got := get[k]; got != want {
				return st.resurrectClass(x, k, got, want, st.managedResurrectClass(x, k, ts, got, want, "read-changed/get")), fmt.Sprintf("Get(%q)@%d = %v, model %v (discardTs %d)\n  lsm: %s", k, ts, got, want, st.discard, shapeString(x.db))
			}
			for name, m := range map[string]map[string]readObs{"forward": fwd, "reverse": rev} {
				got, ok := m[k]
				if !ok {
					got = readObs{Val: "<nil>"}
				}
				if got != want {
					return st.resurrectClass(x, k, got, want, st.managedResurrectClass(x, k, ts, got, want, "read-changed/iter")), fmt.Sprintf("%s iterator key %q@%d = %v, model %v (discardTs %d)\n  lsm: %s", name, k, ts, got, want, st.discard, shapeString(x.db))
				}
			}
		}
	}
	return "", ""
}

// promise: the versions retention settings say must still be present (C13).
func (st *lsmState) promise() map[string][]uint64 {
	out := map[string][]uint64{}
	now := uint64(time.Now().Unix())
	if st.normal {
		// normal mode: the discard watermark is the read watermark, which can never pass an open
		// read transaction: at most (oldest open snapshot's read timestamp - 1), and at most the
		// newest commit.  The promise is computed for that most aggressive legal watermark.
		saved := st.discard
		defer func() { st.discard = saved }()
		st.discard = st.maxTs()
		for _, sn := range st.snaps {
			if r := sn.ReadTs(); r > 0 && r-1 < st.discard {
				st.discard = r - 1
			}
		}
	}
	for _, k := range st.keys {
		var ws []mwrite
		for _, w := range st.writes {
			if w.Key == k {
				ws = append(ws, w)
			}
		}
		// newest first; same-version duplicates: keep the last written
		sort.SliceStable(ws, func(i, j int) bool { return ws[i].Ts > ws[j].Ts })
		count := 0
		stopped := false
		var lastTs uint64
		for i, w := range ws {
			if i > 0 && w.Ts == lastTs {
				continue
			}
			lastTs = w.Ts
			if w.Ts > st.discard {
				out[k] = append(out[k], w.Ts)
				continue
			}
			if stopped {
				break
			}
			if w.Meta&bitMergeEntry != 0 {
				out[k] = append(out[k], w.Ts)
				continue
			}
			count++
			if w.Del || (w.Exp != 0 && w.Exp <= now) {
				stopped = true
				continue
			}
			out[k] = append(out[k], w.Ts)
			if w.Meta&bitDiscardEarlierVersions != 0 || count == st.opts.NumVersionsToKeep {
				stopped = true
			}
		}
	}
	return out
}

func lsmCheckRetention(x *seqExec) (string, string) {
	st := x.st.(*lsmState)
	d := dumpAll(x.db)
	written := map[string]bool{}
	for _, w := range st.writes {
		written[fmt.Sprintf("%s@%d", w.Key, w.Ts)] = true
	}
	for k, vs := range d {
		for _, e := range vs {
			if !written[fmt.Sprintf("%s@%d", k, e.Ver)] {
				return "retention/unknown-version", fmt.Sprintf("version %s@%d was never written (dump %s)", k, e.Ver, dumpString(d))
			}
		}
	}
	for k, want := range st.promise() {
		have := map[uint64]bool{}
		for _, e := range d[k] {
			have[e.Ver] = true
		}
		for _, v := range want {
			if !have[v] {
				return "retention/dropped", fmt.Sprintf("key %q version %d must be retained (discardTs %d, NumVersionsToKeep %d) but AllVersions shows %s\n  lsm: %s",
					k, v, st.discard, st.opts.NumVersionsToKeep, dumpString(d), shapeString(x.db))
			}
		}
	}
	return "", ""
}

func lsmCheckStructure(x *seqExec) (string, string) {
	db := x.db
	ids := map[uint64]int{}
	for i, l := range db.lc.levels {
		l.RLock()
		tables := append([]*table.Table{}, l.tables...)
		l.RUnlock()
		for j, t := range tables {
			if prev, dup := ids[t.ID()]; dup {
				return "structure/dup-id", fmt.Sprintf("table id %d on level %d and %d", t.ID(), prev, i)
			}
			ids[t.ID()] = i
			if y.CompareKeys(t.Smallest(), t.Biggest()) > 0 {
				return "structure/range", fmt.Sprintf("table %d smallest > biggest", t.ID())
			}
			if i == 0 || j == 0 {
				continue
			}
			p := tables[j-1]
			if y.CompareKeys(p.Biggest(), t.Smallest()) >= 0 {
				return "structure/overlap", fmt.Sprintf("level %d: table %d [%q..%q] not before table %d [%q..%q]", i, p.ID(), p.Smallest(), p.Biggest(), t.ID(), t.Smallest(), t.Biggest())
			}
			if bytes.Equal(y.ParseKey(p.Biggest()), y.ParseKey(t.Smallest())) {
				return "structure/key-split", fmt.Sprintf("level %d: user key %q lives in tables %d and %d", i, y.ParseKey(t.Smallest()), p.ID(), t.ID())
			}
		}
	}
	if err := db.lc.validate(); err != nil {
		return "structure/validate", err.Error()
	}
	if db.opt.InMemory {
		return "", ""
	}
	// manifest == levels == files
	db.manifest.appendLock.Lock()
	mt := map[uint64]int{}
	for id, tm := range db.manifest.manifest.Tables {
		mt[id] = int(tm.Level)
	}
	db.manifest.appendLock.Unlock()
	if len(mt) != len(ids) {
		return "structure/manifest", fmt.Sprintf("manifest tables %v, levels %v", mt, ids)
	}
	for id, lv := range ids {
		if ml, ok := mt[id]; !ok || ml != lv {
			return "structure/manifest", fmt.Sprintf("table %d: level %d in memory, manifest %v (%v)", id, lv, ml, ok)
		}
	}
	files := map[uint64]bool{}
	ents, _ := os.ReadDir(db.opt.Dir)
	for _, e := range ents {
		if id, ok := table.ParseFileID(e.Name()); ok {
			files[id] = true
		}
	}
	for id := range ids {
		if !files[id] {
			return "structure/files", fmt.Sprintf("table %d has no file", id)
		}
	}
	for id := range files {
		if _, ok := ids[id]; !ok {
			return "structure/files", fmt.Sprintf("stray table file %06d.sst not in any level", id)
		}
	}
	_ = filepath.Join
	return "", ""
}

func lsmCheck(x *seqExec, op string) (string, string) {
	st := x.st.(*lsmState)
	if st.pendC != "" {
		return st.pendC, st.pendD
	}
	if st.opts.InMemory && x.j.Bool("nofiles", false) {
		if c, d := checkNoFiles(x); c != "" {
			return c, d
		}
	}
	if x.j.Bool("ttl_stream", false) && st.normal && !st.opts.InMemory {
		if c, d := lsmCheckStreamBackup(x); c != "" {
			return c, d
		}
	}
	switch st.oracle {
	case "c29": // reads equal the model (dropped keys invisible, everything else unchanged) and the tree is well formed
		if c, d := lsmCheckReads(x); c != "" {
			if len(st.dropped) > 0 {
				c = "drop-" + c
			}
			return c, d
		}
		return lsmCheckStructure(x)
	case "c12", "c36", "c07":
		return lsmCheckReads(x)
	case "c13":
		return lsmCheckRetention(x)
	case "c14":
		return lsmCheckStructure(x)
	default:
		for _, f := range []func(*seqExec) (string, string){lsmCheckReads, lsmCheckRetention, lsmCheckStructure} {
			if c, d := f(x); c != "" {
				return c, d
			}
		}
	}
	return "", ""
}

var lsmScenario = &seqScenario{name: "lsm", open: lsmOpen, enabled: lsmEnabled, apply: lsmApply, check: lsmCheck, key: lsmKey, close: lsmClose,
	describe: func(x *seqExec) string { return shapeString(x.db) }}

func init() {
	registerSeq(lsmScenario)
	// c33stream (E-enum): every history of up to N steps over {TTL set, plain set, delete, clock
	// advance past the TTL, flush, compaction} on the lsm scenario, each followed by the full read
	// oracle plus a Stream run and a Backup + Load into a fresh database.
	registerEnum("c33stream", func(e *enumCtx) {
		e.journal = true
		maxLen := e.j.Int("len", 3)
		alphabet := []string{"La", "Sa", "Da", "A", "F", "C0"}
		if e.j.Params == nil {
			e.j.Params = map[string]any{}
		}
		for k, v := range map[string]any{"oracle": "c12", "mode": "normal", "keys": 1, "ttl": true, "ttl_stream": true, "l0_tables": 1} {
			e.j.Params[k] = v
		}
		var rec func(seq []string)
		rec = func(seq []string) {
			if e.stop() {
				return
			}
			if len(seq) > 0 {
				s := append([]string{}, seq...)
				e.do(strings.Join(s, ","), func() (string, string) {
					_, class, desc, _, _ := lsmScenario.run(e.t, e.j, s, false, false)
					return class, desc
				})
			}
			if len(seq) == maxLen {
				return
			}
			for _, op := range alphabet {
				if len(seq) == 0 && (op == "A" || op == "F" || op == "C0" || op == "Da") {
					continue
				}
				rec(append(seq, op))
			}
		}
		rec(nil)
	})
}

// lsmCheckStreamBackup (C33): a Stream run and a Backup + Load into a fresh database show a key
// exactly when the model does (an expired entry is delivered / restored as invisible).
func lsmCheckStreamBackup(x *seqExec) (string, string) {
	st := x.st.(*lsmState)
	want := map[string]string{}
	ts := x.db.orc.nextTs() - 1
	for _, k := range st.keys {
		if o := st.modelRead(k, ts); o.Val != "<nil>" {
			want[k] = o.Val
		}
	}
	col := &c25Collector{}
	s := x.db.NewStream()
	s.NumGo = 2
	s.Send = col.send
	if err := s.Orchestrate(context.Background()); err != nil {
		return "stream-error", err.Error()
	}
	got := map[string]string{}
	for _, kv := range col.kvs {
		if !kv.StreamDone {
			if _, dup := got[string(kv.Key)]; dup {
				return "expiry-stream", fmt.Sprintf("stream delivered key %q twice", kv.Key)
			}
			got[string(kv.Key)] = string(kv.Value)
		}
	}
	if fmt.Sprint(got) != fmt.Sprint(want) {
		return "expiry-stream", fmt.Sprintf("Stream delivered %d keys %v, the model shows %d visible keys (expired and deleted entries must not be delivered)", len(got), keysOf(got), len(want))
	}
	var buf bytes.Buffer
	if _, err := x.db.Backup(&buf, 0); err != nil {
		return "backup-error", err.Error()
	}
	o := smallOpts(x.dir + "/restore")
	rdb, err := Open(o)
	if err != nil {
		return "backup-load-error", err.Error()
	}
	defer func() {
		_ = rdb.Close()
		_ = os.RemoveAll(x.dir + "/restore")
	}()
	if err := rdb.Load(&buf, 4); err != nil {
		return "backup-load-error", err.Error()
	}
	vis, e := c24Visible(rdb)
	if e != "" {
		return "backup-read-error", e
	}
	got = map[string]string{}
	for k, v := range vis {
		got[k] = v.val
	}
	if fmt.Sprint(got) != fmt.Sprint(want) {
		return "expiry-backup", fmt.Sprintf("Backup + Load shows keys %v, the model shows %d visible keys", keysOf(got), len(want))
	}
	return "", ""
}

func keysOf(m map[string]string) []string {
	ks := make([]string, 0, len(m))
	for k := range m {
		ks = append(ks, k)
	}
	sort.Strings(ks)
	return ks
}
