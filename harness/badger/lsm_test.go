package badger

// "lsm" scenario family (E-seq): managed-mode database, explicit flush / compaction / ageing /
// discard-watermark / reopen transitions.  Oracles: C12 (reads at or above the discard watermark
// never change), C13 (retention), C14 (structure), C36 (managed timestamps), C07 (reopen).

import (
	"bytes"
	"fmt"
	"os"
	"path/filepath"
	"sort"
	"strings"
	"testing/synctest"
	"time"

	"github.com/dgraph-io/badger/v4/table"
	"github.com/dgraph-io/badger/v4/y"
)

type mwrite struct {
	Key  string
	Ts   uint64
	Val  string
	Del  bool
	Meta byte // bitDiscardEarlierVersions / bitMergeEntry
	Exp  uint64
}

type lsmState struct {
	opts    Options
	nextTs  uint64
	writes  []mwrite
	discard uint64
	keys    []string
	oracle  string           // which property's oracle is active: c12 c13 c14 c36 c07 all
	created map[uint64]int64 // table id -> virtual creation time (unix nano)
	seqno   int
}

func (st *lsmState) maxTs() uint64 {
	var m uint64
	for _, w := range st.writes {
		if w.Ts > m {
			m = w.Ts
		}
	}
	return m
}

// modelRead: newest write of key with version <= ts; same-version duplicates: last written wins.
func (st *lsmState) modelRead(key string, ts uint64) readObs {
	var best *mwrite
	for i := range st.writes {
		w := &st.writes[i]
		if w.Key != key || w.Ts > ts {
			continue
		}
		if best == nil || w.Ts >= best.Ts {
			best = w
		}
	}
	if best == nil || best.Del || (best.Exp != 0 && best.Exp <= uint64(time.Now().Unix())) {
		return readObs{Val: "<nil>"}
	}
	return readObs{Val: best.Val, Ver: best.Ts}
}

func lsmValue(k string, ts uint64, big bool) string {
	n := 24
	if big {
		n = 200
	}
	return string(val(fmt.Sprintf("%s@%d", k, ts), n))
}

func lsmOpts(x *seqExec) Options {
	o := smallOpts(x.dir)
	o.managedTxns = true
	o.MemTableSize = 64 << 10
	o.BaseTableSize = int64(x.j.Int("table_size", 256))
	o.BaseLevelSize = int64(x.j.Int("base_level_size", 600))
	o.LevelSizeMultiplier = x.j.Int("level_mult", 2)
	o.TableSizeMultiplier = 1
	o.MaxLevels = x.j.Int("max_levels", 4)
	o.NumLevelZeroTables = x.j.Int("l0_tables", 2)
	o.NumLevelZeroTablesStall = 9
	o.NumMemtables = 4
	o.NumVersionsToKeep = x.j.Int("nvk", 1)
	o.BlockSize = 128
	o.ValueThreshold = 64
	o.LmaxCompaction = true
	if x.j.Bool("inmemory", false) {
		o.InMemory, o.Dir, o.ValueDir = true, "", ""
	}
	return o
}

func lsmOpen(x *seqExec) {
	st := &lsmState{nextTs: 1, created: map[uint64]int64{}}
	st.opts = lsmOpts(x)
	st.oracle = x.j.Str("oracle", "c12")
	nk := x.j.Int("keys", 2)
	st.keys = []string{"a", "b", "c", "d"}[:nk]
	x.st = st
	x.db = mustOpen(st.opts)
}

func lsmClose(x *seqExec) {
	if x.db != nil {
		_ = x.db.Close()
	}
}

// fixAges gives every table a virtual creation time (file mtimes are real time, the bubble clock
// is virtual) and remembers it across reopen, as the on-disk mtime would.
func (st *lsmState) fixAges(db *DB) {
	now := time.Now()
	for _, l := range db.lc.levels {
		l.RLock()
		for _, t := range l.tables {
			if c, ok := st.created[t.ID()]; ok {
				t.CreatedAt = time.Unix(0, c)
			} else {
				t.CreatedAt = now
				st.created[t.ID()] = now.UnixNano()
			}
		}
		l.RUnlock()
	}
}

func l0Count(db *DB) int { return db.lc.levels[0].numTables() }

// lsmFlush rotates the active memtable exactly as ensureRoomForWrite does and waits for the
// flusher goroutine to put the table into L0.
func lsmFlush(db *DB) bool { return lsmFlushMode(db, false) }

// lsmFlushMode: polling=true is for callers running as a scheduled harness thread (they must not
// call synctest.Wait): they sleep on the virtual clock until the flusher has emptied db.imm.
func lsmFlushMode(db *DB, polling bool) bool {
	db.lock.Lock()
	if db.mt == nil || db.mt.sl.Empty() {
		db.lock.Unlock()
		return false
	}
	select {
	case db.flushChan <- db.mt:
		db.imm = append(db.imm, db.mt)
		var err error
		db.mt, err = db.newMemTable()
		if err != nil {
			panic(err)
		}
	default:
		db.lock.Unlock()
		return false
	}
	db.lock.Unlock()
	if !polling {
		synctest.Wait()
		return true
	}
	for i := 0; i < 100000; i++ {
		db.lock.RLock()
		n := len(db.imm)
		db.lock.RUnlock()
		if n == 0 {
			break
		}
		time.Sleep(time.Millisecond)
	}
	return true
}

// runOnceAs replicates runCompactor's runOnce for compactor id: production picker, production
// doCompact, first success wins.
func runOnceAs(db *DB, id int) (bool, string) {
	s := db.lc
	prios := s.pickCompactLevels(nil)
	if id == 0 {
		idx := -1
		for i, p := range prios {
			if p.level == 0 {
				idx = i
				break
			}
		}
		if idx > 0 {
			out := append([]compactionPriority{}, prios[idx])
			out = append(out, prios[:idx]...)
			out = append(out, prios[idx+1:]...)
			prios = out
		}
	}
	for _, p := range prios {
		if id == 0 && p.level == 0 {
		} else if p.adjusted < 1.0 {
			break
		}
		err := s.doCompact(id, p)
		if err == nil {
			return true, fmt.Sprintf("L%d", p.level)
		}
		if err != errFillTables {
			return false, "ERR:" + err.Error()
		}
	}
	return false, ""
}

func lsmEnabled(x *seqExec) []string {
	st := x.st.(*lsmState)
	var ops []string
	if x.j.Bool("managed_ts", false) {
		// C36: caller-chosen, non-monotonic timestamps (kept >= the discard timestamp: legal use)
		for _, ts := range []uint64{3, 5, 7} {
			if ts < st.discard {
				continue
			}
			ops = append(ops, fmt.Sprintf("M%s%d", st.keys[0], ts))
		}
		for _, ts := range []uint64{3, 5, 7} {
			if ts >= st.discard {
				ops = append(ops, fmt.Sprintf("X%s%d", st.keys[0], ts))
			}
		}
		if 5 >= st.discard {
			ops = append(ops, fmt.Sprintf("W%s%d", st.keys[0], 5))
		}
	} else {
		for _, k := range st.keys {
			ops = append(ops, "S"+k)
		}
		for _, k := range st.keys {
			ops = append(ops, "D"+k)
		}
	}
	if x.j.Bool("big", false) {
		ops = append(ops, "B"+st.keys[0])
	}
	if st.oracle == "c13" || x.j.Bool("discard_entries", false) {
		ops = append(ops, "E"+st.keys[0])
	}
	if l0Count(x.db) < st.opts.NumLevelZeroTablesStall-1 {
		ops = append(ops, "F")
	}
	ops = append(ops, "C0", "C1")
	if st.maxTs() > st.discard {
		ops = append(ops, "T")
	}
	ops = append(ops, "A")
	if x.j.Bool("lmax", false) {
		ops = append(ops, "H", "CL")
	}
	if x.j.Bool("reopen", false) {
		ops = append(ops, "R")
	}
	if x.j.Bool("closecompact", false) {
		ops = append(ops, "CX")
	}
	if only := x.j.Str("ops", ""); only != "" {
		allow := map[string]bool{}
		for _, o := range strings.Fields(only) {
			allow[o] = true
		}
		var f []string
		for _, o := range ops {
			if allow[o] {
				f = append(f, o)
			}
		}
		ops = f
	}
	return ops
}

func lsmApply(x *seqExec, op string) bool {
	st := x.st.(*lsmState)
	db := x.db
	defer st.fixAges(x.db)
	switch op[0] {
	case 'S', 'B', 'D', 'E':
		k := op[1:]
		ts := st.nextTs
		st.nextTs++
		txn := db.NewTransactionAt(ts, true)
		w := mwrite{Key: k, Ts: ts}
		var err error
		switch op[0] {
		case 'D':
			w.Del = true
			err = txn.Delete([]byte(k))
		case 'E':
			w.Val = lsmValue(k, ts, false)
			w.Meta = bitDiscardEarlierVersions
			err = txn.SetEntry(NewEntry([]byte(k), []byte(w.Val)).WithDiscard())
		default:
			w.Val = lsmValue(k, ts, op[0] == 'B')
			err = txn.Set([]byte(k), []byte(w.Val))
		}
		if err != nil {
			panic(err)
		}
		if err := txn.CommitAt(ts, nil); err != nil {
			panic(fmt.Sprintf("commit %s: %v", op, err))
		}
		st.writes = append(st.writes, w)
		return true
	case 'M', 'X', 'W':
		k := op[1:2]
		var ts uint64
		fmt.Sscanf(op[2:], "%d", &ts)
		st.seqno++
		w := mwrite{Key: k, Ts: ts, Val: string(val(fmt.Sprintf("%s@%d#%d", k, ts, st.seqno), 24)), Del: op[0] == 'X'}
		if op[0] == 'W' {
			wb := db.NewManagedWriteBatch()
			if err := wb.SetEntryAt(NewEntry([]byte(k), []byte(w.Val)), ts); err != nil {
				panic(err)
			}
			if err := wb.Flush(); err != nil {
				panic(err)
			}
		} else {
			txn := db.NewTransactionAt(ts, true)
			var err error
			if w.Del {
				err = txn.Delete([]byte(k))
			} else {
				err = txn.Set([]byte(k), []byte(w.Val))
			}
			if err != nil {
				panic(err)
			}
			if err := txn.CommitAt(ts, nil); err != nil {
				panic(fmt.Sprintf("commit %s: %v", op, err))
			}
		}
		st.writes = append(st.writes, w)
		return true
	case 'F':
		return lsmFlush(db)
	case 'C':
		switch op {
		case "C0":
			ok, _ := runOnceAs(db, 0)
			return ok
		case "C1":
			ok, _ := runOnceAs(db, 1)
			return ok
		case "CL":
			p := compactionPriority{level: db.lc.lastLevel().level, t: db.lc.levelTargets()}
			return db.lc.doCompact(2, p) == nil
		case "CX":
			return db.lc.doCompact(173, compactionPriority{level: 0, score: 1.73}) == nil
		}
	case 'T':
		m := st.maxTs()
		if m <= st.discard {
			return false
		}
		st.discard = m
		db.SetDiscardTs(m)
		return true
	case 'A':
		time.Sleep(11 * time.Second)
		return true
	case 'H':
		time.Sleep(61 * time.Minute)
		return true
	case 'R':
		if err := db.Close(); err != nil {
			panic(fmt.Sprintf("close: %v", err))
		}
		x.db = nil
		ndb, err := OpenManaged(st.opts)
		if err != nil {
			panic(fmt.Sprintf("REOPEN FAILED: %v", err))
		}
		x.db = ndb
		if st.discard > 0 {
			ndb.SetDiscardTs(st.discard)
		}
		synctest.Wait()
		return true
	}
	panic("unknown op " + op)
}

type tblDump struct {
	ID      uint64
	Level   int
	Entries []string // key@ver:meta
	Small   string
	Big     string
	Age     int // 0: <10s 1: >=10s 2: >=1h
	Size    int64
}

func dumpTable(t *table.Table, level int) tblDump {
	d := tblDump{ID: t.ID(), Level: level, Small: string(t.Smallest()), Big: string(t.Biggest()), Size: t.Size()}
	it := t.NewIterator(0)
	defer it.Close()
	for it.Rewind(); it.Valid(); it.Next() {
		v := it.Value()
		d.Entries = append(d.Entries, fmt.Sprintf("%s@%d:%x", y.ParseKey(it.Key()), y.ParseTs(it.Key()), v.Meta&^bitValuePointer))
	}
	age := time.Since(t.CreatedAt)
	switch {
	case age >= time.Hour:
		d.Age = 2
	case age >= 10*time.Second:
		d.Age = 1
	}
	return d
}

func dumpLevels(db *DB) [][]tblDump {
	out := make([][]tblDump, len(db.lc.levels))
	for i, l := range db.lc.levels {
		l.RLock()
		for _, t := range l.tables {
			out[i] = append(out[i], dumpTable(t, i))
		}
		l.RUnlock()
	}
	return out
}

func dumpMem(db *DB) []string {
	var out []string
	db.lock.RLock()
	defer db.lock.RUnlock()
	mts := append([]*memTable{}, db.imm...)
	if db.mt != nil {
		mts = append(mts, db.mt)
	}
	for i, mt := range mts {
		it := mt.sl.NewUniIterator(false)
		for it.Rewind(); it.Valid(); it.Next() {
			v := it.Value()
			out = append(out, fmt.Sprintf("m%d:%s@%d:%x", i, y.ParseKey(it.Key()), y.ParseTs(it.Key()), v.Meta&^bitValuePointer))
		}
		it.Close()
	}
	return out
}

// lsmKey: canonical state key.  Versions are renamed to their rank among the versions present
// (plus the discard watermark's position), see DESIGN.md §2.4 for the soundness argument.
func lsmKey(x *seqExec) string {
	st := x.st.(*lsmState)
	lv := dumpLevels(x.db)
	mem := dumpMem(x.db)
	var b strings.Builder
	vers := map[uint64]bool{}
	collect := func(e string) {
		at := strings.LastIndexByte(e, '@')
		colon := strings.LastIndexByte(e, ':')
		var v uint64
		fmt.Sscanf(e[at+1:colon], "%d", &v)
		vers[v] = true
	}
	for _, e := range mem {
		collect(e)
	}
	for _, l := range lv {
		for _, t := range l {
			for _, e := range t.Entries {
				collect(e)
			}
		}
	}
	var vs []uint64
	for v := range vers {
		vs = append(vs, v)
	}
	sort.Slice(vs, func(i, j int) bool { return vs[i] < vs[j] })
	rank := map[uint64]int{}
	for i, v := range vs {
		rank[v] = i + 1
		if x.j.Bool("managed_ts", false) {
			rank[v] = int(v) // explicit timestamps: later writes may fall between existing versions
		}
	}
	ren := func(e string) string {
		at := strings.LastIndexByte(e, '@')
		colon := strings.LastIndexByte(e, ':')
		var v uint64
		fmt.Sscanf(e[at+1:colon], "%d", &v)
		return fmt.Sprintf("%s@%d%s", e[:at], rank[v], e[colon:])
	}
	dpos := sort.Search(len(vs), func(i int) bool { return vs[i] > st.discard })
	if x.j.Bool("managed_ts", false) {
		dpos = int(st.discard)
	}
	fmt.Fprintf(&b, "D%d|", dpos)
	for _, e := range mem {
		b.WriteString(ren(e))
		b.WriteByte(',')
	}
	for i, l := range lv {
		fmt.Fprintf(&b, "|L%d:", i)
		for _, t := range l {
			big := 0
			if i == 0 && t.Size >= 2*st.opts.MemTableSize {
				big = 1
			}
			fmt.Fprintf(&b, "[a%db%d ", t.Age, big)
			for _, e := range t.Entries {
				b.WriteString(ren(e))
				b.WriteByte(',')
			}
			b.WriteByte(']')
		}
	}
	return b.String()
}

func shapeString(db *DB) string {
	var b strings.Builder
	for _, e := range dumpMem(db) {
		b.WriteString(e + " ")
	}
	for i, l := range dumpLevels(db) {
		if len(l) == 0 {
			continue
		}
		fmt.Fprintf(&b, "| L%d:", i)
		for _, t := range l {
			fmt.Fprintf(&b, " #%d(age%d)%v", t.ID, t.Age, t.Entries)
		}
	}
	return b.String()
}

// ---------------------------------------------------------------------------------------
// oracles

func lsmReadAt(db *DB, keys []string, ts uint64) (get map[string]readObs, fwd, rev map[string]readObs) {
	txn := db.NewTransactionAt(ts, false)
	defer txn.Discard()
	get = readKeys(txn, keys)
	fwd = iterKeys(txn, false, true)
	rev = iterKeys(txn, true, false)
	return
}

func lsmCheckReads(x *seqExec) (string, string) {
	st := x.st.(*lsmState)
	hi := st.maxTs() + 1
	lo := st.discard
	for ts := lo; ts <= hi; ts++ {
		get, fwd, rev := lsmReadAt(x.db, st.keys, ts)
		for _, k := range st.keys {
			want := st.modelRead(k, ts)
			if got := get[k]; got != want {
				return "read-changed/get", fmt.Sprintf("Get(%q)@%d = %v, model %v (discardTs %d)\n  lsm: %s", k, ts, got, want, st.discard, shapeString(x.db))
			}
			for name, m := range map[string]map[string]readObs{"forward": fwd, "reverse": rev} {
				got, ok := m[k]
				if !ok {
					got = readObs{Val: "<nil>"}
				}
				if got != want {
					return "read-changed/iter", fmt.Sprintf("%s iterator key %q@%d = %v, model %v (discardTs %d)\n  lsm: %s", name, k, ts, got, want, st.discard, shapeString(x.db))
				}
			}
		}
	}
	return "", ""
}

// promise: the versions retention settings say must still be present (C13).
func (st *lsmState) promise() map[string][]uint64 {
	out := map[string][]uint64{}
	now := uint64(time.Now().Unix())
	for _, k := range st.keys {
		var ws []mwrite
		for _, w := range st.writes {
			if w.Key == k {
				ws = append(ws, w)
			}
		}
		// newest first; same-version duplicates: keep the last written
		sort.SliceStable(ws, func(i, j int) bool { return ws[i].Ts > ws[j].Ts })
		count := 0
		stopped := false
		var lastTs uint64
		for i, w := range ws {
			if i > 0 && w.Ts == lastTs {
				continue
			}
			lastTs = w.Ts
			if w.Ts > st.discard {
				out[k] = append(out[k], w.Ts)
				continue
			}
			if stopped {
				break
			}
			if w.Meta&bitMergeEntry != 0 {
				out[k] = append(out[k], w.Ts)
				continue
			}
			count++
			if w.Del || (w.Exp != 0 && w.Exp <= now) {
				stopped = true
				continue
			}
			out[k] = append(out[k], w.Ts)
			if w.Meta&bitDiscardEarlierVersions != 0 || count == st.opts.NumVersionsToKeep {
				stopped = true
			}
		}
	}
	return out
}

func lsmCheckRetention(x *seqExec) (string, string) {
	st := x.st.(*lsmState)
	d := dumpAll(x.db)
	written := map[string]bool{}
	for _, w := range st.writes {
		written[fmt.Sprintf("%s@%d", w.Key, w.Ts)] = true
	}
	for k, vs := range d {
		for _, e := range vs {
			if !written[fmt.Sprintf("%s@%d", k, e.Ver)] {
				return "retention/unknown-version", fmt.Sprintf("version %s@%d was never written (dump %s)", k, e.Ver, dumpString(d))
			}
		}
	}
	for k, want := range st.promise() {
		have := map[uint64]bool{}
		for _, e := range d[k] {
			have[e.Ver] = true
		}
		for _, v := range want {
			if !have[v] {
				return "retention/dropped", fmt.Sprintf("key %q version %d must be retained (discardTs %d, NumVersionsToKeep %d) but AllVersions shows %s\n  lsm: %s",
					k, v, st.discard, st.opts.NumVersionsToKeep, dumpString(d), shapeString(x.db))
			}
		}
	}
	return "", ""
}

func lsmCheckStructure(x *seqExec) (string, string) {
	db := x.db
	ids := map[uint64]int{}
	for i, l := range db.lc.levels {
		l.RLock()
		tables := append([]*table.Table{}, l.tables...)
		l.RUnlock()
		for j, t := range tables {
			if prev, dup := ids[t.ID()]; dup {
				return "structure/dup-id", fmt.Sprintf("table id %d on level %d and %d", t.ID(), prev, i)
			}
			ids[t.ID()] = i
			if y.CompareKeys(t.Smallest(), t.Biggest()) > 0 {
				return "structure/range", fmt.Sprintf("table %d smallest > biggest", t.ID())
			}
			if i == 0 || j == 0 {
				continue
			}
			p := tables[j-1]
			if y.CompareKeys(p.Biggest(), t.Smallest()) >= 0 {
				return "structure/overlap", fmt.Sprintf("level %d: table %d [%q..%q] not before table %d [%q..%q]", i, p.ID(), p.Smallest(), p.Biggest(), t.ID(), t.Smallest(), t.Biggest())
			}
			if bytes.Equal(y.ParseKey(p.Biggest()), y.ParseKey(t.Smallest())) {
				return "structure/key-split", fmt.Sprintf("level %d: user key %q lives in tables %d and %d", i, y.ParseKey(t.Smallest()), p.ID(), t.ID())
			}
		}
	}
	if err := db.lc.validate(); err != nil {
		return "structure/validate", err.Error()
	}
	if db.opt.InMemory {
		return "", ""
	}
	// manifest == levels == files
	db.manifest.appendLock.Lock()
	mt := map[uint64]int{}
	for id, tm := range db.manifest.manifest.Tables {
		mt[id] = int(tm.Level)
	}
	db.manifest.appendLock.Unlock()
	if len(mt) != len(ids) {
		return "structure/manifest", fmt.Sprintf("manifest tables %v, levels %v", mt, ids)
	}
	for id, lv := range ids {
		if ml, ok := mt[id]; !ok || ml != lv {
			return "structure/manifest", fmt.Sprintf("table %d: level %d in memory, manifest %v (%v)", id, lv, ml, ok)
		}
	}
	files := map[uint64]bool{}
	ents, _ := os.ReadDir(db.opt.Dir)
	for _, e := range ents {
		if id, ok := table.ParseFileID(e.Name()); ok {
			files[id] = true
		}
	}
	for id := range ids {
		if !files[id] {
			return "structure/files", fmt.Sprintf("table %d has no file", id)
		}
	}
	for id := range files {
		if _, ok := ids[id]; !ok {
			return "structure/files", fmt.Sprintf("stray table file %06d.sst not in any level", id)
		}
	}
	_ = filepath.Join
	return "", ""
}

func lsmCheck(x *seqExec, op string) (string, string) {
	st := x.st.(*lsmState)
	switch st.oracle {
	case "c12", "c36", "c07":
		return lsmCheckReads(x)
	case "c13":
		return lsmCheckRetention(x)
	case "c14":
		return lsmCheckStructure(x)
	default:
		for _, f := range []func(*seqExec) (string, string){lsmCheckReads, lsmCheckRetention, lsmCheckStructure} {
			if c, d := f(x); c != "" {
				return c, d
			}
		}
	}
	return "", ""
}

func init() {
	registerSeq(&seqScenario{name: "lsm", open: lsmOpen, enabled: lsmEnabled, apply: lsmApply, check: lsmCheck, key: lsmKey, close: lsmClose,
		describe: func(x *seqExec) string { return shapeString(x.db) }})
}
