package badger

// C02 — serializability / SSI conflict detection.

import (
	"fmt"
	"sort"
	"strings"

	"github.com/dgraph-io/badger/v4/vshim/sched"
	"github.com/dgraph-io/ristretto/v2/z"
)

type c02Prog struct {
	Name   string
	Reads  []string
	How    string // get | iter | seek
	Writes []string
}

var c02Progs = []c02Prog{
	{"Wx", nil, "get", []string{"x"}},
	{"RxWx", []string{"x"}, "get", []string{"x"}},
	{"RxWy", []string{"x"}, "get", []string{"y"}},
	{"RyWx", []string{"y"}, "get", []string{"x"}},
	{"RxyWx", []string{"x", "y"}, "get", []string{"x"}},
	{"RxyWy", []string{"x", "y"}, "get", []string{"y"}},
	{"Rx", []string{"x"}, "get", nil},
	{"IxWy", []string{"x"}, "iter", []string{"y"}},
	{"SxWy", []string{"x"}, "seek", []string{"y"}},
	{"RyWy", []string{"y"}, "get", []string{"y"}},
	{"Wy", nil, "get", []string{"y"}},
	// key-only iteration over all keys: more items than the (2-item) prefetch window, so recycled
	// Item structs are exercised
	{"KallWz", []string{"a", "x", "y"}, "keyiter", []string{"z"}},
	// the iterator is created BEFORE the transaction writes x itself; the item it then yields for x
	// comes from the database (the iterator's view of pending writes was taken at creation), so it is
	// a real read of x although x is in the pending writes by then
	{"IxSetxWx", []string{"x"}, "iterset", []string{"x"}},
}

type c02Txn struct {
	Name     string
	Prog     c02Prog
	ReadTs   uint64
	Reads    map[string]string // key -> value observed
	Err      error
	Done     bool
	CheckSeq int // order in which commit checks ran (from the commit.ts event), -1 = no check
	CommitTs uint64
	BeginAt  int64
	DoneAt   int64
}

type c02State struct {
	h    *hist
	txns []*c02Txn
}

func c02Thread(x *schedExec, name string, p c02Prog, beginPoints int) sched.Thread {
	st := x.state.(*c02State)
	rec := &c02Txn{Name: name, Prog: p, Reads: map[string]string{}, CheckSeq: -1}
	st.txns = append(st.txns, rec)
	return sched.Thread{Name: name, Body: func() {
		x.s.Point("op")
		rec.BeginAt = st.h.tick()
		txn := x.db.NewTransaction(true)
		rec.ReadTs = txn.ReadTs()
		if p.How == "keyiter" {
			x.s.Point("op")
			o := DefaultIteratorOptions
			o.PrefetchValues = false
			it := txn.NewIterator(o)
			for it.Rewind(); it.Valid(); it.Next() {
				item := it.Item()
				v, _ := item.ValueCopy(nil)
				rec.Reads[string(item.Key())] = string(v)
			}
			it.Close()
			delete(rec.Reads, "z")
		}
		for _, k := range p.Reads {
			if p.How == "keyiter" {
				break
			}
			x.s.Point("op")
			switch p.How {
			case "get":
				rec.Reads[k] = getStr(txn, k)
			case "iter":
				it := txn.NewIterator(DefaultIteratorOptions)
				rec.Reads[k] = "<nil>"
				for it.Rewind(); it.Valid(); it.Next() {
					item := it.Item()
					if string(item.Key()) == k {
						v, _ := item.ValueCopy(nil)
						rec.Reads[k] = string(v)
					}
					if string(item.Key()) >= k {
						break // do not read beyond k: later keys must not enter the read set
					}
				}
				it.Close()
			case "iterset":
				it := txn.NewIterator(DefaultIteratorOptions)
				if err := txn.Set([]byte(k), []byte(name)); err != nil {
					rec.Err = err
				}
				rec.Reads[k] = "<nil>"
				for it.Rewind(); it.Valid(); it.Next() {
					item := it.Item()
					if string(item.Key()) == k {
						v, _ := item.ValueCopy(nil)
						rec.Reads[k] = string(v)
					}
					if string(item.Key()) >= k {
						break
					}
				}
				it.Close()
			case "seek":
				o := DefaultIteratorOptions
				o.PrefetchValues = false
				it := txn.NewIterator(o)
				it.Seek([]byte(k))
				rec.Reads[k] = "<nil>"
				if it.Valid() && string(it.Item().Key()) == k {
					v, _ := it.Item().ValueCopy(nil)
					rec.Reads[k] = string(v)
				}
				it.Close()
			}
		}
		for _, k := range p.Writes {
			if err := txn.Set([]byte(k), []byte(name)); err != nil {
				rec.Err = err
			}
		}
		x.s.Point("op")
		rec.Err = txn.Commit()
		rec.DoneAt = st.h.tick()
		rec.Done = true
	}}
}

func c02Check(x *schedExec) (string, string, string) {
	st := x.state.(*c02State)
	d := dumpAll(x.db)
	byName := map[string]*c02Txn{}
	for _, t := range st.txns {
		byName[t.Name] = t
	}
	// commit timestamps from the version dump
	for k, vs := range d {
		for _, e := range vs {
			if e.Deleted || e.Val == "init" {
				continue
			}
			t := byName[e.Val]
			if t == nil {
				return "", fmt.Sprintf("unknown value %q at %s@%d", e.Val, k, e.Ver), "unknown-value"
			}
			if t.Err != nil {
				return "", fmt.Sprintf("%s failed with %v but its write %s@%d is visible", t.Name, t.Err, k, e.Ver), "rejected-visible"
			}
			t.CommitTs = e.Ver
		}
	}
	// order of commit checks from the event log
	seq := 0
	for _, ev := range x.s.Events {
		var tid int
		if n, _ := fmt.Sscanf(ev, "check tid=%d", &tid); n == 1 && tid < len(st.txns) {
			st.txns[tid].CheckSeq = seq
			seq++
		}
	}
	var out []string
	for _, t := range st.txns {
		if !t.Done {
			return "", t.Name + " never finished", "unfinished"
		}
		if t.Err != nil && t.Err != ErrConflict {
			return "", fmt.Sprintf("%s: unexpected error %v", t.Name, t.Err), "unexpected-error"
		}
		if len(t.Prog.Writes) == 0 {
			if t.Err != nil {
				return "", fmt.Sprintf("read-only commit %s failed: %v", t.Name, t.Err), "readonly-rejected"
			}
			out = append(out, t.Name+":ro")
			continue
		}
		if t.Err == nil && t.CommitTs == 0 {
			return "", fmt.Sprintf("%s committed but no write stored (dump %s)", t.Name, dumpString(d)), "lost-commit"
		}
		// expected verdict by the letter of the property
		expect := false
		var why string
		for _, u := range st.txns {
			if u == t || u.Err != nil || len(u.Prog.Writes) == 0 || u.CommitTs <= t.ReadTs {
				continue
			}
			// u registered before t's check?
			before := false
			if t.Err == nil {
				before = u.CommitTs < t.CommitTs
			} else {
				before = u.CheckSeq >= 0 && t.CheckSeq >= 0 && u.CheckSeq < t.CheckSeq
			}
			if !before {
				continue
			}
			for _, rk := range t.Prog.Reads {
				for _, wk := range u.Prog.Writes {
					if rk == wk {
						expect = true
						why = fmt.Sprintf("%s read %q, %s wrote it at %d > readTs %d", t.Name, rk, u.Name, u.CommitTs, t.ReadTs)
					}
				}
			}
		}
		if expect && t.Err == nil {
			return "", fmt.Sprintf("%s committed at %d although %s", t.Name, t.CommitTs, why), "missed-conflict"
		}
		if !expect && t.Err == ErrConflict {
			return "", fmt.Sprintf("%s (readTs %d, reads %v) rejected with ErrConflict although no transaction that committed after its read timestamp wrote a key it read; txns: %s", t.Name, t.ReadTs, t.Prog.Reads, c02Describe(st)), "spurious-conflict"
		}
		if t.Err == nil {
			out = append(out, fmt.Sprintf("%s@%d", t.Name, t.CommitTs))
		} else {
			out = append(out, t.Name+":conflict")
		}
	}
	// serial replay in commit-ts order reproduces every committed transaction's reads
	var committed []*c02Txn
	for _, t := range st.txns {
		if t.Err == nil && len(t.Prog.Writes) > 0 {
			committed = append(committed, t)
		}
	}
	sort.Slice(committed, func(i, j int) bool { return committed[i].CommitTs < committed[j].CommitTs })
	model := map[string]string{"a": "init", "x": "init", "y": "init"}
	for _, t := range committed {
		for k, v := range t.Reads {
			if model[k] != v {
				return "", fmt.Sprintf("not serializable in commit order: %s@%d read %s=%q but the serial state has %q; txns: %s", t.Name, t.CommitTs, k, v, model[k], c02Describe(st)), "not-serializable"
			}
		}
		for _, k := range t.Prog.Writes {
			model[k] = t.Name
		}
	}
	sort.Strings(out)
	return strings.Join(out, " "), "", ""
}

func c02Describe(st *c02State) string {
	var b strings.Builder
	for _, t := range st.txns {
		fmt.Fprintf(&b, "[%s r%d c%d err=%v check#%d reads=%v] ", t.Name, t.ReadTs, t.CommitTs, t.Err, t.CheckSeq, t.Reads)
	}
	return b.String()
}

func c02Scenario(name string, progs func(j int) []c02Prog) *schedScenario {
	return &schedScenario{
		name:   name,
		points: []string{"op", "commit.ts", "commit.applied"},
		setup: func(x *schedExec) {
			o := smallOpts(x.dir)
			o.InMemory, o.Dir, o.ValueDir = true, "", ""
			x.db = mustOpen(o)
			if z.MemHash([]byte("x")) == z.MemHash([]byte("y")) {
				panic("fingerprint collision")
			}
			if err := x.db.Update(func(txn *Txn) error {
				_ = txn.Set([]byte("a"), []byte("init"))
				_ = txn.Set([]byte("x"), []byte("init"))
				return txn.Set([]byte("y"), []byte("init"))
			}); err != nil {
				panic(err)
			}
			x.state = &c02State{h: &hist{}}
		},
		threads: func(x *schedExec) []sched.Thread {
			ps := progs(x.j.Int("case", 0))
			var ths []sched.Thread
			for i, p := range ps {
				ths = append(ths, c02Thread(x, fmt.Sprintf("T%d", i), p, 0))
			}
			return ths
		},
		check: c02Check,
	}
}

func c02Pairs() [][2]int {
	var out [][2]int
	for i := range c02Progs {
		for j := i; j < len(c02Progs); j++ {
			out = append(out, [2]int{i, j})
		}
	}
	return out
}

func init() {
	registerSched(c02Scenario("c02pair", func(c int) []c02Prog {
		p := c02Pairs()[c]
		return []c02Prog{c02Progs[p[0]], c02Progs[p[1]]}
	}))
	// triples: a long-running reader-writer that outlives the others' conflict-log cleanup
	registerSched(c02Scenario("c02triple", func(c int) []c02Prog {
		longs := []c02Prog{{"LRxWy", []string{"x"}, "get", []string{"y"}}, {"LRxyWx", []string{"x", "y"}, "get", []string{"x"}}}
		others := [][2]int{{0, 0}, {0, 2}, {1, 3}, {2, 3}, {0, 9}, {4, 5}}
		l := longs[c%len(longs)]
		o := others[(c/len(longs))%len(others)]
		return []c02Prog{l, c02Progs[o[0]], c02Progs[o[1]]}
	}))
}

// managed mode: a transaction A reads x at readTs 5; between its read and its CommitAt(20), up to
// three other transactions commit with arbitrary (non-monotonic) timestamps.
func init() {
	registerEnum("c02managed", func(e *enumCtx) {
		type other struct {
			key string
			ts  uint64
		}
		var opts []other
		for _, k := range []string{"x", "y"} {
			for _, ts := range []uint64{3, 5, 6, 10, 12} {
				opts = append(opts, other{k, ts})
			}
		}
		var rec func(seq []other)
		run := func(seq []other) {
			for _, how := range []string{"get", "iter", "seek"} {
				// discardAt: SetDiscardTs(4) (below A's read timestamp: legal) is called after that many of
				// the other commits; the conflict log is cleaned at the next commit, and its entries are in
				// commit ORDER, not in timestamp order
				for discardAt := -1; discardAt <= len(seq); discardAt++ {
					how, discardAt := how, discardAt
					legal := true
					for i, o := range seq {
						if discardAt >= 0 && i >= discardAt && o.ts <= 4 {
							legal = false // a commit below the discard timestamp is a caller error (badger asserts)
						}
					}
					if !legal {
						continue
					}
					id := fmt.Sprintf("%s/%v", how, seq)
					if discardAt >= 0 {
						id = fmt.Sprintf("%s/%v/discard4@%d", how, seq, discardAt)
					}
					e.do(id, func() (string, string) {
						o := smallOpts("")
						o.InMemory, o.Dir, o.ValueDir = true, "", ""
						o.managedTxns = true
						db := mustOpen(o)
						defer db.Close()
						w := db.NewTransactionAt(1, true)
						_ = w.Set([]byte("x"), []byte("init"))
						_ = w.Set([]byte("y"), []byte("init"))
						if err := w.CommitAt(2, nil); err != nil {
							return "setup", err.Error()
						}
						a := db.NewTransactionAt(5, true)
						switch how {
						case "get":
							_ = getStr(a, "x")
						case "iter":
							it := a.NewIterator(DefaultIteratorOptions)
							for it.Rewind(); it.Valid(); it.Next() {
								if string(it.Item().Key()) >= "x" {
									break
								}
							}
							it.Close()
						case "seek":
							it := a.NewIterator(DefaultIteratorOptions)
							it.Seek([]byte("x"))
							it.Close()
						}
						_ = a.Set([]byte("z"), []byte("A"))
						want := false
						if discardAt == 0 {
							db.SetDiscardTs(4)
						}
						for i, s := range seq {
							t := db.NewTransactionAt(s.ts, true)
							_ = t.Set([]byte(s.key), []byte(fmt.Sprintf("B%d", i)))
							if err := t.CommitAt(s.ts, nil); err != nil {
								return "other-commit", fmt.Sprintf("%v: %v", s, err)
							}
							if s.key == "x" && s.ts > 5 {
								want = true
							}
							if i+1 == discardAt {
								db.SetDiscardTs(4)
							}
						}
						err := a.CommitAt(20, nil)
						if want && err != ErrConflict {
							return "missed-conflict", fmt.Sprintf("A read x (%s) at readTs 5; others %v committed; CommitAt(20) = %v, want ErrConflict", how, seq, err)
						}
						if !want && err != nil {
							return "spurious-conflict", fmt.Sprintf("A read x (%s) at readTs 5; others %v; CommitAt(20) = %v, want nil", how, seq, err)
						}
						return "", ""
					})
				}
			}
		}
		rec = func(seq []other) {
			run(seq)
			if len(seq) == 3 || e.stop() {
				return
			}
			for _, o := range opts {
				rec(append(append([]other{}, seq...), o))
			}
		}
		rec(nil)
	})
}
