package badger

// C38 — public calls and Close always return (no deadlock), with real compactors, a tiny
// memtable and a tight L0 so that writes stall on the memtable queue and on L0.

import (
	"context"
	"fmt"
	"runtime"
	"sort"
	"strings"
	"testing/synctest"
	"time"

	"github.com/dgraph-io/badger/v4/pb"
	"github.com/dgraph-io/badger/v4/vshim/sched"
	"github.com/dgraph-io/ristretto/v2/z"
)

type c38State struct {
	errs   []string
	notes  []string
	closed bool
}

func (st *c38State) note(f string, a ...any) { st.notes = append(st.notes, fmt.Sprintf(f, a...)) }

// tolerated errors: a call may fail because the DB is closing / writes are blocked
func c38OK(err error) bool {
	if err == nil {
		return true
	}
	s := err.Error()
	for _, t := range []string{"Writes are blocked", "DB Closed", "closed", "Value log GC", "rejected", "No room", "context canceled", "Nothing to", "nothing to"} {
		if strings.Contains(s, t) {
			return true
		}
	}
	return err == ErrBlockedWrites || err == ErrDBClosed || err == ErrNoRewrite || err == ErrRejected || err == ErrConflict
}

func c38Commits(x *schedExec, st *c38State, name string, n int, big bool) sched.Thread {
	return sched.Thread{Name: name, Body: func() {
		for i := 0; i < n; i++ {
			x.s.Point("op")
			sz := 900
			if !big {
				sz = 40
			}
			err := x.db.Update(func(txn *Txn) error {
				return txn.Set([]byte(fmt.Sprintf("%s-%03d", name, i)), val(name, sz))
			})
			if !c38OK(err) {
				st.errs = append(st.errs, fmt.Sprintf("%s commit %d: %v", name, i, err))
			}
		}
	}}
}

func init() {
	registerSched(&schedScenario{
		name:    "c38",
		points:  []string{"op", "send.enqueue", "write.lsm", "mt.rotate", "flush.add", "drop.block", "compact.picked", "compact.manifest"},
		horizon: 120 * time.Second,
		setup: func(x *schedExec) {
			o := smallOpts(x.dir)
			o.NumCompactors = 2
			o.MemTableSize = 16 << 10
			o.NumMemtables = 1
			o.NumLevelZeroTables = 1
			o.NumLevelZeroTablesStall = 2
			o.ValueThreshold = 512
			o.BaseTableSize = 8 << 10
			o.BaseLevelSize = 32 << 10
			x.db = mustOpen(o)
			st := &c38State{}
			// pre-fill so that L0 is close to its stall limit
			for i := 0; i < 12; i++ {
				if err := x.db.Update(func(txn *Txn) error { return txn.Set([]byte(fmt.Sprintf("pre-%03d", i)), val("pre", 900)) }); err != nil {
					panic(err)
				}
			}
			x.state = st
		},
		teardown: func(x *schedExec) {
			_ = x.db.Close()
		},
		threads: func(x *schedExec) []sched.Thread {
			st := x.state.(*c38State)
			closeT := sched.Thread{Name: "Close", Body: func() {
				x.s.Point("op")
				if err := x.db.Close(); err != nil {
					st.note("close: %v", err)
				}
				st.closed = true
			}}
			switch x.j.Int("case", 0) {
			case 0: // commits x commits x Close
				return []sched.Thread{c38Commits(x, st, "A", 10, true), c38Commits(x, st, "B", 10, true), closeT}
			case 1: // WriteBatch.Flush x iteration with ValueCopy x RunValueLogGC
				wbT := sched.Thread{Name: "WB", Body: func() {
					x.s.Point("op")
					wb := x.db.NewWriteBatch()
					for i := 0; i < 24; i++ {
						if err := wb.Set([]byte(fmt.Sprintf("wb-%03d", i)), val("wb", 900)); !c38OK(err) {
							st.errs = append(st.errs, "wb.Set: "+err.Error())
						}
					}
					x.s.Point("op")
					if err := wb.Flush(); !c38OK(err) {
						st.errs = append(st.errs, "wb.Flush: "+err.Error())
					}
				}}
				itT := sched.Thread{Name: "It", Body: func() {
					for r := 0; r < 2; r++ {
						x.s.Point("op")
						_ = x.db.View(func(txn *Txn) error {
							it := txn.NewIterator(DefaultIteratorOptions)
							defer it.Close()
							n := 0
							for it.Rewind(); it.Valid(); it.Next() {
								if _, err := it.Item().ValueCopy(nil); err != nil {
									st.errs = append(st.errs, "ValueCopy: "+err.Error())
								}
								if n++; n%8 == 0 {
									x.s.Point("op")
								}
							}
							return nil
						})
					}
				}}
				gcT := sched.Thread{Name: "GC", Body: func() {
					for r := 0; r < 2; r++ {
						x.s.Point("op")
						if err := x.db.RunValueLogGC(0.01); !c38OK(err) {
							st.errs = append(st.errs, "gc: "+err.Error())
						}
					}
				}}
				return []sched.Thread{wbT, itT, gcT}
			case 2: // commits x DropAll
				return []sched.Thread{c38Commits(x, st, "A", 10, true), {Name: "DropAll", Body: func() {
					x.s.Point("op")
					if err := x.db.DropAll(); !c38OK(err) {
						st.errs = append(st.errs, "DropAll: "+err.Error())
					}
				}}}
			case 3: // commits x DropPrefix x reader
				return []sched.Thread{c38Commits(x, st, "A", 8, true), {Name: "DropPrefix", Body: func() {
					x.s.Point("op")
					if err := x.db.DropPrefix([]byte("pre-00")); !c38OK(err) {
						st.errs = append(st.errs, "DropPrefix: "+err.Error())
					}
				}}, {Name: "Rd", Body: func() {
					for r := 0; r < 3; r++ {
						x.s.Point("op")
						_ = x.db.View(func(txn *Txn) error { _, _ = txn.Get([]byte("pre-010")); return nil })
					}
				}}}
			case 4: // Flatten x commits
				return []sched.Thread{c38Commits(x, st, "A", 8, true), {Name: "Flatten", Body: func() {
					x.s.Point("op")
					if err := x.db.Flatten(2); !c38OK(err) {
						st.errs = append(st.errs, "Flatten: "+err.Error())
					}
				}}}
			case 5: // Subscribe + cancel x commits x Close
				ctx, cancel := context.WithCancel(context.Background())
				return []sched.Thread{{Name: "Sub", Body: func() {
					x.s.Point("op")
					err := x.db.Subscribe(ctx, func(kv *KVList) error { return nil }, []pb.Match{{Prefix: []byte("A")}})
					st.note("subscribe returned: %v", err)
				}}, {Name: "Cancel", Body: func() {
					x.s.Point("op")
					cancel()
				}}, c38Commits(x, st, "A", 6, true), closeT}
			case 6: // two Close calls with writes in flight
				return []sched.Thread{c38Commits(x, st, "A", 6, true), closeT, {Name: "Close2", Body: func() {
					x.s.Point("op")
					_ = x.db.Close()
				}}}
			case 7: // Sync x commits x flush pressure
				return []sched.Thread{c38Commits(x, st, "A", 8, true), c38Commits(x, st, "B", 8, false), {Name: "Sync", Body: func() {
					for r := 0; r < 3; r++ {
						x.s.Point("op")
						if err := x.db.Sync(); !c38OK(err) {
							st.errs = append(st.errs, "Sync: "+err.Error())
						}
					}
				}}}
			}
			panic("bad case")
		},
		check: func(x *schedExec) (string, string, string) {
			st := x.state.(*c38State)
			if len(st.errs) > 0 {
				sort.Strings(st.errs)
				return "", "unexpected errors: " + strings.Join(st.errs, "; "), "unexpected-error"
			}
			return "returned", "", ""
		},
	})

	// StreamWriter x commit: a commit whose write has been applied but whose commit timestamp is
	// not yet marked done races PrepareIncremental/Prepare + Write + Flush.
	registerSched(&schedScenario{
		name:    "c38sw",
		points:  []string{"op", "commit.applied", "commit.sent", "drop.block"},
		horizon: 120 * time.Second,
		setup: func(x *schedExec) {
			o := smallOpts(x.dir)
			o.NumCompactors = 2
			x.db = mustOpen(o)
			x.state = &c38State{}
			if err := x.db.Update(func(txn *Txn) error { return txn.Set([]byte("pre"), []byte("v")) }); err != nil {
				panic(err)
			}
		},
		teardown: func(x *schedExec) { _ = x.db.Close() },
		threads: func(x *schedExec) []sched.Thread {
			st := x.state.(*c38State)
			incremental := x.j.Int("case", 0)%2 == 0
			return []sched.Thread{c38Commits(x, st, "A", 1, false), {Name: "SW", Body: func() {
				x.s.Point("op")
				sw := x.db.NewStreamWriter()
				var err error
				if incremental {
					err = sw.PrepareIncremental()
				} else {
					err = sw.Prepare()
				}
				if err != nil {
					st.note("prepare: %v", err)
					sw.Cancel()
					return
				}
				x.s.Point("op")
				buf := z.NewBuffer(1<<10, "c38")
				KVToBuffer(&pb.KV{Key: []byte("streamed"), Value: []byte("sv"), Version: 50, StreamId: 1}, buf)
				err = sw.Write(buf)
				_ = buf.Release()
				if err != nil {
					st.errs = append(st.errs, "sw.Write: "+err.Error())
					sw.Cancel()
					return
				}
				x.s.Point("op")
				if err := sw.Flush(); err != nil {
					st.errs = append(st.errs, "sw.Flush: "+err.Error())
				}
			}}}
		},
		check: func(x *schedExec) (string, string, string) {
			st := x.state.(*c38State)
			if len(st.errs) > 0 {
				sort.Strings(st.errs)
				return "", "unexpected errors: " + strings.Join(st.errs, "; "), "unexpected-error"
			}
			return "returned " + strings.Join(st.notes, ";"), "", ""
		},
	})
}

// c38sub (E-enum, inside a bubble): a subscriber whose callback is slow lets batches pile up (up to
// the publisher blocking on the subscriber's full channel); the callback then fails.  Subscribe
// must return, later commits must go through and Close must return.  "Returned" is decided by
// quiescence of the bubble (synctest.Wait), not by a wall-clock timeout.
func init() {
	registerEnum("c38sub", func(e *enumCtx) {
		for _, bc := range []struct {
			backlog int
			single  bool // one publisher batch per commit (the bubble goes quiescent after every commit)
		}{{3, false}, {1005, false}, {1500, false}, {3, true}, {999, true}, {1000, true}, {1001, true}, {1002, true}, {1003, true}, {1500, true}, {2500, false}, {2500, true}} {
			backlog, single := bc.backlog, bc.single
			e.do(fmt.Sprintf("backlog%d/single%v", backlog, single), func() (c, d string) {
				inBubble(e.t, func() {
					o := smallOpts("")
					o.InMemory, o.Dir, o.ValueDir = true, "", ""
					o.NumLevelZeroTables, o.NumLevelZeroTablesStall = 1<<20, 1<<21
					db := mustOpen(o)
					release := make(chan struct{})
					subDone, closeDone := false, false
					var subErr error
					first := true
					go func() {
						subErr = db.Subscribe(context.Background(), func(kv *KVList) error {
							if first {
								first = false
								<-release
								return fmt.Errorf("callback failed")
							}
							return nil
						}, []pb.Match{{Prefix: []byte("k")}})
						subDone = true
					}()
					synctest.Wait()
					// the commits run in their own goroutine: with the publisher blocked on the full
					// subscriber channel further commits wait (back-pressure, by design) until the
					// subscription has ended; they must all complete after that
					commitsDone := false
					var commitErr error
					go func() {
						defer func() { commitsDone = true }()
						for i := 0; i < backlog; i++ {
							if err := db.Update(func(txn *Txn) error { return txn.Set([]byte(fmt.Sprintf("k%05d", i)), []byte("v")) }); err != nil {
								commitErr = fmt.Errorf("commit %d with a slow subscriber: %v", i, err)
								return
							}
							if single {
								// one publisher batch per commit: wait until the publisher has taken it
								// (no sleeping here: a sleeping goroutine counts as blocked for synctest.Wait)
								for j := 0; j < 1000 && len(db.pub.pubCh) > 0; j++ {
									runtime.Gosched()
								}
							}
						}
					}()
					synctest.Wait()
					close(release)
					synctest.Wait()
					if commitErr != nil {
						c, d = "unexpected-error", commitErr.Error()
						bubbleLeakOK = true
						return
					}
					if subDone && !commitsDone {
						c, d = "deadlock/Update", fmt.Sprintf("commits queued behind a slow subscriber (%d issued) never returned after the subscription ended", backlog)
						bubbleLeakOK = true
						return
					}
					if !subDone {
						c, d = "deadlock/Subscribe", fmt.Sprintf("with %d batches queued for a subscriber whose callback then failed, Subscribe never returned (all goroutines of the process are blocked)", backlog)
						bubbleLeakOK = true
						return
					}
					if subErr == nil || !strings.Contains(subErr.Error(), "callback failed") {
						c, d = "unexpected-error", fmt.Sprintf("Subscribe returned %v", subErr)
					}
					if err := db.Update(func(txn *Txn) error { return txn.Set([]byte("k-after"), []byte("v")) }); err != nil && c == "" {
						c, d = "unexpected-error", "commit after the subscriber ended: "+err.Error()
					}
					go func() { _ = db.Close(); closeDone = true }()
					synctest.Wait()
					if !closeDone && c == "" {
						c, d = "deadlock/Close", "Close did not return after the subscriber ended"
						bubbleLeakOK = true
					}
				})
				return
			})
		}
	})
}

// c38stall (E-enum, inside a bubble): Close is called while level 0 holds NumLevelZeroTablesStall
// tables, so the flush of the last memtable(s) stalls until a compactor has made room; the compactors
// must therefore still be running while Close waits for the flusher.  The bubble's virtual clock has
// not advanced when Close starts (the compactors' first tick has not fired), which makes the state
// deterministic; ten virtual minutes later Close must have returned.
func init() {
	registerEnum("c38stall", func(e *enumCtx) {
		for _, stall := range []int{2, 3} {
			for _, pending := range []string{"active", "queued", "queued+active"} {
				for _, compactors := range []int{2, 4} {
					stall, pending, compactors := stall, pending, compactors
					e.do(fmt.Sprintf("stall%d/%s/compactors%d", stall, pending, compactors), func() (c, d string) {
						inBubble(e.t, func() {
							dir := freshDir(e.j)
							defer removeAll(dir)
							o := smallOpts(dir)
							o.NumCompactors = compactors
							o.NumLevelZeroTables, o.NumLevelZeroTablesStall = stall-1, stall
							o.NumMemtables = 4
							db := mustOpen(o)
							set := func(k string) {
								if err := db.Update(func(txn *Txn) error { return txn.Set([]byte(k), val(k+"|", 64)) }); err != nil {
									panic(err)
								}
							}
							for i := 0; i < stall; i++ {
								set(fmt.Sprintf("k%02d", i))
								lsmFlush(db)
							}
							if n := db.lc.levels[0].numTables(); n != stall {
								c, d = "harness", fmt.Sprintf("level 0 has %d tables, wanted %d", n, stall)
								_ = db.Close()
								return
							}
							if pending != "active" {
								set("queued")
								db.lock.Lock()
								db.flushChan <- db.mt
								db.imm = append(db.imm, db.mt)
								var err error
								if db.mt, err = db.newMemTable(); err != nil {
									panic(err)
								}
								db.lock.Unlock()
							}
							if pending != "queued" {
								set("active")
							}
							closeDone := false
							var closeErr error
							go func() { closeErr = db.Close(); closeDone = true }()
							time.Sleep(10 * time.Minute)
							if !closeDone {
								c, d = "deadlock/Close", fmt.Sprintf("Close called with level 0 at the stall limit (%d tables) and %s memtable(s) to flush has not returned after 10 virtual minutes: the flusher is stalled and nothing compacts level 0", stall, pending)
								// let the leftover goroutines finish: make room in level 0 by hand
								for i := 0; i < 4 && !closeDone; i++ {
									runOnceAs(db, 0)
									time.Sleep(time.Minute)
								}
								if !closeDone {
									bubbleLeakOK = true
								}
								return
							}
							if closeErr != nil {
								c, d = "unexpected-error", "Close: "+closeErr.Error()
								return
							}
							// nothing written before Close may be lost
							db2 := mustOpen(o)
							defer db2.Close()
							want := []string{}
							for i := 0; i < stall; i++ {
								want = append(want, fmt.Sprintf("k%02d", i))
							}
							if pending != "active" {
								want = append(want, "queued")
							}
							if pending != "queued" {
								want = append(want, "active")
							}
							_ = db2.View(func(txn *Txn) error {
								for _, k := range want {
									if _, err := txn.Get([]byte(k)); err != nil && c == "" {
										c, d = "lost-after-close", fmt.Sprintf("key %q written before Close: %v after re-open", k, err)
									}
								}
								return nil
							})
						})
						return
					})
				}
			}
		}
	})
}
