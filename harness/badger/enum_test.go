package badger

// E-enum: bounded-exhaustive input enumeration helper.  Cases are numbered in enumeration order;
// case n belongs to shard n % NShard.  A replay re-enumerates and executes only the recorded id.

import (
	"encoding/json"
	"fmt"
	"runtime/debug"
	"testing"
	"time"

	"github.com/dgraph-io/badger/v4/vshim/vlib"
)

type enumCtx struct {
	t        *testing.T
	j        *vlib.Job
	r        *vlib.Result
	name     string
	only     string
	n        int64
	deadline time.Time
	stopped  bool
	journal  bool // write the case id before running it (for scenarios that may die)
}

func newEnum(t *testing.T, j *vlib.Job, r *vlib.Result, name string) *enumCtx {
	e := &enumCtx{t: t, j: j, r: r, name: name, deadline: j.Deadline(time.Now()), journal: true}
	if len(j.Replay) > 0 && string(j.Replay) != "null" {
		var rp struct {
			Case string `json:"case"`
		}
		_ = json.Unmarshal(j.Replay, &rp)
		e.only = rp.Case
		if e.only == "" {
			e.only = "\x00none"
		}
	}
	return e
}

// stop reports whether enumeration should end (violation found or deadline).
func (e *enumCtx) stop() bool {
	if e.stopped {
		return true
	}
	if e.n&255 == 0 && !e.deadline.IsZero() && time.Now().After(e.deadline) {
		e.r.Capped, e.r.CapReason = true, "deadline"
		e.stopped = true
	}
	return e.stopped
}

// do runs one case.  id must be unique and stable; f returns (class, description) on failure.
// distinct is an optional key for distinct-outcome counting ("" = count the case itself).
func (e *enumCtx) do(id string, f func() (string, string)) {
	if e.stop() {
		return
	}
	n := e.n
	e.n++
	if e.only != "" {
		if id != e.only {
			return
		}
	} else if int(n%int64(e.j.NShard)) != e.j.Shard {
		return
	}
	if e.journal {
		e.j.WriteJournal(map[string]any{"scenario": e.name, "case": id})
	}
	e.r.Evaluations++
	if e.r.Evaluations%1009 == 1 {
		e.r.Sample(map[string]any{"scenario": e.name, "case": id})
	}
	class, desc := func() (c, d string) {
		defer func() {
			// a panic of the code under test on an enumerated input is a failure of that case, not of
			// the harness (panics in other goroutines still kill the worker: the journal names the case)
			if r := recover(); r != nil {
				c, d = "panic/"+panicClass(fmt.Sprint(r)), fmt.Sprintf("panic: %v\n%s", r, debug.Stack())
			}
		}()
		return f()
	}()
	if class != "" {
		e.r.Violate(class, fmt.Sprintf("case %s: %s", id, desc), map[string]any{"scenario": e.name, "case": id}, id, nil)
		if !e.j.IsKnown(class) {
			e.stopped = true
		}
	}
}

func registerEnum(name string, f func(e *enumCtx)) {
	register(name, func(t *testing.T, j *vlib.Job, r *vlib.Result) {
		e := newEnum(t, j, r, name)
		f(e)
		if e.only != "" && r.Evaluations == 0 {
			r.Internal = "replay case not found: " + e.only
		}
		r.Distinct += r.Evaluations // every enumerated case is distinct by construction
	})
}
