package badger

// History recording and the MVCC reference model used by the transactional oracles.

import (
	"fmt"
	"sort"
	"strings"
	"sync"
	"sync/atomic"
)

type readObs struct {
	Val string
	Ver uint64
}

type txnRec struct {
	ID       int
	Name     string
	Update   bool
	BeginAt  int64 // clock at NewTransaction call
	BegunAt  int64 // clock at NewTransaction return
	ReadTs   uint64
	Reads    []map[string]readObs // one map per read round
	Writes   map[string]string    // key -> value ("<del>" = delete)
	CommitAt int64                // clock when Commit/CommitWith was called
	DoneAt   int64                // clock when Commit returned / callback ran
	Err      error
	Done     bool
	CommitTs uint64 // filled from the final dump
}

type hist struct {
	clock atomic.Int64
	mu    sync.Mutex // real mutex, brief
	txns  []*txnRec
}

func (h *hist) tick() int64 { return h.clock.Add(1) }

func (h *hist) add(t *txnRec) *txnRec {
	h.mu.Lock()
	t.ID = len(h.txns)
	h.txns = append(h.txns, t)
	h.mu.Unlock()
	return t
}

type verEntry struct {
	Ver     uint64
	Val     string
	Deleted bool
	Meta    byte
	UMeta   byte
	Expires uint64
}

// dumpAll returns every retained version of every user key, newest first per key.
func dumpAll(db *DB) map[string][]verEntry {
	out := map[string][]verEntry{}
	var txn *Txn
	if db.opt.managedTxns {
		txn = db.NewTransactionAt(^uint64(0), false)
	} else {
		txn = db.NewTransaction(false)
	}
	defer txn.Discard()
	opt := DefaultIteratorOptions
	opt.AllVersions = true
	opt.PrefetchValues = false
	it := txn.NewIterator(opt)
	defer it.Close()
	for it.Rewind(); it.Valid(); it.Next() {
		item := it.Item()
		k := string(item.Key())
		e := verEntry{Ver: item.Version(), Deleted: item.IsDeletedOrExpired(), Meta: item.meta, UMeta: item.UserMeta(), Expires: item.ExpiresAt()}
		if !e.Deleted {
			v, err := item.ValueCopy(nil)
			if err != nil {
				e.Val = "ERR:" + err.Error()
			} else {
				e.Val = string(v)
			}
		}
		out[k] = append(out[k], e)
	}
	return out
}

func dumpString(d map[string][]verEntry) string {
	ks := make([]string, 0, len(d))
	for k := range d {
		ks = append(ks, k)
	}
	sort.Strings(ks)
	var b strings.Builder
	for _, k := range ks {
		fmt.Fprintf(&b, "%q:", k)
		for _, e := range d[k] {
			if e.Deleted {
				fmt.Fprintf(&b, "[%d del]", e.Ver)
			} else {
				fmt.Fprintf(&b, "[%d %s]", e.Ver, shortVal(e.Val))
			}
		}
		b.WriteByte(' ')
	}
	return b.String()
}

func shortVal(v string) string {
	if len(v) > 12 {
		return fmt.Sprintf("%s..(%d)", v[:8], len(v))
	}
	return v
}

// expectAt returns what a snapshot read of key at ts must return given the version dump.
func expectAt(d map[string][]verEntry, key string, ts uint64) readObs {
	for _, e := range d[key] { // newest first
		if e.Ver <= ts {
			if e.Deleted {
				return readObs{Val: "<nil>"}
			}
			return readObs{Val: e.Val, Ver: e.Ver}
		}
	}
	return readObs{Val: "<nil>"}
}

func readKeys(txn *Txn, keys []string) map[string]readObs {
	m := map[string]readObs{}
	for _, k := range keys {
		it, err := txn.Get([]byte(k))
		if err == ErrKeyNotFound {
			m[k] = readObs{Val: "<nil>"}
			continue
		}
		if err != nil {
			m[k] = readObs{Val: "ERR:" + err.Error()}
			continue
		}
		v, err := it.ValueCopy(nil)
		if err != nil {
			m[k] = readObs{Val: "ERR:" + err.Error(), Ver: it.Version()}
			continue
		}
		m[k] = readObs{Val: string(v), Ver: it.Version()}
	}
	return m
}

// iterKeys reads the visible keys through a forward iterator.
func iterKeys(txn *Txn, reverse bool, prefetch bool) map[string]readObs {
	m := map[string]readObs{}
	opt := DefaultIteratorOptions
	opt.Reverse = reverse
	opt.PrefetchValues = prefetch
	it := txn.NewIterator(opt)
	defer it.Close()
	for it.Rewind(); it.Valid(); it.Next() {
		item := it.Item()
		v, err := item.ValueCopy(nil)
		if err != nil {
			m[string(item.Key())] = readObs{Val: "ERR:" + err.Error(), Ver: item.Version()}
			continue
		}
		m[string(item.Key())] = readObs{Val: string(v), Ver: item.Version()}
	}
	return m
}
