package badger

// C27 — WriteBatch applies every operation, later operations winning, however the batch is split.

import (
	"fmt"
)

type c27Op struct {
	kind string // set del setat delat
	key  string
	ts   uint64
}

func (o c27Op) String() string {
	if o.ts != 0 {
		return fmt.Sprintf("%s(%s@%d)", o.kind, o.key, o.ts)
	}
	return fmt.Sprintf("%s(%s)", o.kind, o.key)
}

func init() {
	registerEnum("c27batch", func(e *enumCtx) {
		e.journal = true
		maxLen := e.j.Int("len", 3)
		type mode struct {
			name string
			ops  []c27Op
		}
		var plain, managed []c27Op
		for _, k := range []string{"x", "y"} {
			plain = append(plain, c27Op{"set", k, 0}, c27Op{"del", k, 0})
			for _, ts := range []uint64{5, 7} {
				managed = append(managed, c27Op{"setat", k, ts}, c27Op{"delat", k, ts})
			}
		}
		// NewWriteBatchAt(6): plain Set/Delete take the batch timestamp, SetEntryAt/DeleteAt their own
		var mixed []c27Op
		mixed = append(mixed, plain...)
		for _, ts := range []uint64{5, 6, 7} { // 6 is the batch's own timestamp: an explicit version equal to the implicit one
			mixed = append(mixed, c27Op{"setat", "x", ts}, c27Op{"delat", "x", ts})
		}
		// NewManagedWriteBatch with calls that carry no version next to calls that do: Flush may refuse
		// them, but when it returns nil every call must be reflected
		mplain := []c27Op{{"set", "x", 0}, {"del", "x", 0}, {"set", "y", 0}, {"setat", "x", 5}, {"setat", "y", 7}, {"delat", "x", 7}}
		modes := []mode{{"normal", plain}, {"at6", mixed}, {"managed", managed}, {"managedplain", mplain}}
		for _, m := range modes {
			for _, split := range []int{1, 2, 3, 100} {
				m, split := m, split
				var rec func(seq []c27Op)
				run := func(seq []c27Op) {
					e.do(fmt.Sprintf("%s/split%d/%v", m.name, split, seq), func() (string, string) {
						o := smallOpts("")
						o.InMemory, o.Dir, o.ValueDir = true, "", ""
						o.managedTxns = m.name != "normal"
						db := mustOpen(o)
						defer db.Close()
						db.opt.maxBatchCount = int64(split + 2) // the batch's transaction takes `split` entries
						var wb *WriteBatch
						switch m.name {
						case "normal":
							wb = db.NewWriteBatch()
						case "at6":
							wb = db.NewWriteBatchAt(6)
						default:
							wb = db.NewManagedWriteBatch()
						}
						// model: key -> version -> (value, deleted); later call wins per (key, version)
						type cell struct {
							val string
							del bool
						}
						model := map[string]map[uint64]cell{}
						order := map[string][]uint64{} // normal mode: call order per key
						for i, op := range seq {
							v := fmt.Sprintf("v%d", i)
							var err error
							ver := op.ts
							if m.name == "at6" && ver == 0 {
								ver = 6
							}
							if m.name == "normal" {
								ver = uint64(i + 1) // only the order matters
							}
							switch op.kind {
							case "set":
								err = wb.Set([]byte(op.key), []byte(v))
							case "del":
								err = wb.Delete([]byte(op.key))
							case "setat":
								err = wb.SetEntryAt(NewEntry([]byte(op.key), []byte(v)), op.ts)
							case "delat":
								err = wb.DeleteAt([]byte(op.key), op.ts)
							}
							if err != nil {
								if m.name == "managedplain" {
									return "", "" // refused (the error comes from an internal commit of the split batch)
								}
								return "batch-op-error", fmt.Sprintf("%v: %v", op, err)
							}
							if model[op.key] == nil {
								model[op.key] = map[uint64]cell{}
							}
							model[op.key][ver] = cell{v, op.kind == "del" || op.kind == "delat"}
							order[op.key] = append(order[op.key], ver)
						}
						if err := wb.Flush(); err != nil {
							if m.name == "managedplain" {
								return "", "" // refused: nothing is promised
							}
							return "batch-flush-error", err.Error()
						}
						if m.name == "managedplain" {
							// Flush returned nil: a key whose last call carried no version must show that call
							// to a reader at the largest timestamp
							txn := db.NewTransactionAt(1<<62, false)
							defer txn.Discard()
							got := readKeys(txn, []string{"x", "y"})
							for _, k := range []string{"x", "y"} {
								last := -1
								for i, op := range seq {
									if op.key == k {
										last = i
									}
								}
								if last < 0 || seq[last].ts != 0 {
									continue
								}
								want := fmt.Sprintf("v%d", last)
								if seq[last].kind == "del" {
									want = "<nil>"
								}
								if got[k].Val != want {
									return "batch-call-lost", fmt.Sprintf("managed batch, ops %v split every %d: Flush returned nil, but the last call for %s (%s without a version) is not reflected: a reader at the largest timestamp sees %q, want %q", seq, split, k, seq[last].kind, got[k].Val, want)
								}
							}
							return "", ""
						}
						read := func(ts uint64) map[string]readObs {
							var txn *Txn
							if o.managedTxns {
								txn = db.NewTransactionAt(ts, false)
							} else {
								txn = db.NewTransaction(false)
							}
							defer txn.Discard()
							return readKeys(txn, []string{"x", "y"})
						}
						if m.name == "normal" {
							got := read(0)
							for _, k := range []string{"x", "y"} {
								want := "<nil>"
								if vs := order[k]; len(vs) > 0 {
									c := model[k][vs[len(vs)-1]]
									if !c.del {
										want = c.val
									}
								}
								if got[k].Val != want {
									return "batch-later-wins", fmt.Sprintf("ops %v split every %d: %s = %q, want %q", seq, split, k, got[k].Val, want)
								}
							}
							return "", ""
						}
						for ts := uint64(4); ts <= 8; ts++ {
							got := read(ts)
							for _, k := range []string{"x", "y"} {
								want := readObs{Val: "<nil>"}
								var best uint64
								for ver, c := range model[k] {
									if ver <= ts && ver >= best {
										best = ver
										if c.del {
											want = readObs{Val: "<nil>"}
										} else {
											want = readObs{Val: c.val, Ver: ver}
										}
									}
								}
								if got[k] != want {
									return "batch-later-wins", fmt.Sprintf("%s batch, ops %v split every %d: read %s@%d = %v, want %v", m.name, seq, split, k, ts, got[k], want)
								}
							}
						}
						return "", ""
					})
				}
				rec = func(seq []c27Op) {
					if len(seq) > 0 {
						run(seq)
					}
					if len(seq) == maxLen || e.stop() {
						return
					}
					for _, op := range m.ops {
						rec(append(append([]c27Op{}, seq...), op))
					}
				}
				rec(nil)
			}
		}
	})
}
