package badger

// c36crash (E-enum): managed mode.  Every sequence of up to N operations out of {SetEntryAt x@5,
// SetEntryAt x@7, Set x (takes the batch timestamp 10), DeleteAt x@7, SetEntryAt y@5} through
// NewWriteBatchAt(10) on an on-disk database, Flush, then one more commit at 20.  A crash image
// (copy of the open directory) is re-opened in managed mode: reads at every timestamp 4..21 must
// equal the model (the newest write at or below the timestamp, later call winning per key and
// version), i.e. the caller-chosen timestamps survive WAL replay.
import (
	"fmt"
	"strings"
)

func init() {
	registerEnum("c36crash", func(e *enumCtx) {
		maxLen := e.j.Int("len", 3)
		type op struct {
			kind, key string
			ts        uint64
		}
		alphabet := []op{{"setat", "x", 5}, {"setat", "x", 7}, {"set", "x", 0}, {"delat", "x", 7}, {"setat", "y", 5}, {"set", "y", 0}}
		var rec func(seq []op)
		rec = func(seq []op) {
			if e.stop() {
				return
			}
			if len(seq) > 0 {
				s := append([]op{}, seq...)
				var names []string
				for _, o := range s {
					names = append(names, fmt.Sprintf("%s(%s@%d)", o.kind, o.key, o.ts))
				}
				e.do(strings.Join(names, ","), func() (string, string) {
					root := freshDir(e.j)
					defer removeAll(root)
					o := smallOpts(root + "/db")
					o.managedTxns = true
					db := mustOpen(o)
					defer db.Close()
					type cell struct {
						val string
						del bool
					}
					model := map[string]map[uint64]cell{}
					put := func(k string, ver uint64, c cell) {
						if model[k] == nil {
							model[k] = map[uint64]cell{}
						}
						model[k][ver] = c
					}
					wb := db.NewWriteBatchAt(10)
					for i, o := range s {
						v := fmt.Sprintf("v%d", i)
						var err error
						switch o.kind {
						case "setat":
							err = wb.SetEntryAt(NewEntry([]byte(o.key), []byte(v)), o.ts)
							put(o.key, o.ts, cell{val: v})
						case "delat":
							err = wb.DeleteAt([]byte(o.key), o.ts)
							put(o.key, o.ts, cell{del: true})
						case "set":
							err = wb.Set([]byte(o.key), []byte(v))
							put(o.key, 10, cell{val: v})
						}
						if err != nil {
							return "batch-op-error", err.Error()
						}
					}
					if err := wb.Flush(); err != nil {
						return "batch-flush-error", err.Error()
					}
					txn := db.NewTransactionAt(19, true)
					if err := txn.Set([]byte("z"), []byte("later")); err != nil {
						return "c36-write", err.Error()
					}
					if err := txn.CommitAt(20, nil); err != nil {
						return "c36-write", err.Error()
					}
					put("z", 20, cell{val: "later"})
					check := func(d *DB, what string) string {
						for ts := uint64(4); ts <= 21; ts++ {
							t := d.NewTransactionAt(ts, false)
							got := readKeys(t, []string{"x", "y", "z"})
							t.Discard()
							for _, k := range []string{"x", "y", "z"} {
								want := readObs{Val: "<nil>"}
								var best uint64
								found := false
								for ver, c := range model[k] {
									if ver <= ts && (!found || ver >= best) {
										best, found = ver, true
										if c.del {
											want = readObs{Val: "<nil>"}
										} else {
											want = readObs{Val: c.val, Ver: ver}
										}
									}
								}
								if got[k] != want {
									return fmt.Sprintf("%s: read %s@%d = %v, want %v", what, k, ts, got[k], want)
								}
							}
						}
						return ""
					}
					if s := check(db, "live database"); s != "" {
						return "managed-read", s
					}
					if err := copyDirFlat(root+"/db", root+"/img"); err != nil {
						return "c36-copy", err.Error()
					}
					o2 := o
					o2.Dir, o2.ValueDir = root+"/img", root+"/img"
					cdb, err := OpenManaged(o2)
					if err != nil {
						return "managed-crash-reopen", err.Error()
					}
					defer cdb.Close()
					if s := check(cdb, "after a crash (copy of the open directory) and re-open"); s != "" {
						return "managed-crash-read", s
					}
					return "", ""
				})
			}
			if len(seq) == maxLen {
				return
			}
			for _, o := range alphabet {
				rec(append(seq, o))
			}
		}
		rec(nil)
	})
}
