package badger

// E-crash: every persistence step of a history as a crash point.
//
// A history (list of operations) is executed once under the controlled scheduler with every
// y.VerifIO call as a schedule point ("about to perform <op> on <path>").  Before each step is
// released the scheduler has waited for quiescence, so the directory snapshot taken there is a
// true instant of the whole process.  From the snapshots and the event log three families of
// images are produced and recovered with the production Open:
//   - C08: the snapshot as is (OS page cache survives), plus the syscall-level sub-steps of the
//     multi-syscall operations inside ristretto's MmapFile (create: file present with length 0;
//     Delete: truncated to 0 but not yet unlinked);
//   - C10: the power-loss image: only contents covered by a completed msync/fsync/O_DSYNC write
//     and names covered by a completed directory fsync;
//   - C09: torn tails (see c09_test.go).

import (
	"bytes"
	"crypto/sha1"
	"fmt"
	"os"
	"path/filepath"
	"sort"
	"strings"
	gosync "sync"
	"syscall"
	"testing"
	"testing/synctest"
	"time"

	"github.com/dgraph-io/badger/v4/vshim/sched"
	"github.com/dgraph-io/badger/v4/vshim/vlib"
	"github.com/dgraph-io/badger/v4/y"
)

type fileSnap struct {
	Ino  uint64
	Size int64
	Blob string // key into blobs (content with trailing zeros trimmed)
}

type dirSnap map[string]fileSnap

type ioEvent struct {
	Op      string
	Path    string // relative to the db dir
	Path2   string // rename target
	Started bool   // released by the scheduler (the step happens before the next snapshot)
	Existed bool   // for "open": did the file exist when the hook fired
}

type crashSnap struct {
	Files   dirSnap
	NEvents int    // events logged when the snapshot was taken
	Started []bool // per event: started (hence completed) at snapshot time
	Issued  int    // history ops started
	Acked   int    // history ops completed
}

type crashRun struct {
	hist   []string
	dir    string
	blobs  map[string][]byte
	events []*ioEvent
	snaps  []*crashSnap
	issued int
	acked  int
	opts   Options
	err    string
}

func (cr *crashRun) blob(b []byte) string {
	b = bytes.TrimRight(b, "\x00")
	h := sha1.Sum(b)
	k := string(h[:])
	if _, ok := cr.blobs[k]; !ok {
		cr.blobs[k] = append([]byte{}, b...)
	}
	return k
}

// readSparse reads a file skipping holes (tmpfs supports SEEK_DATA/SEEK_HOLE).
func readSparse(path string) ([]byte, int64, uint64, error) {
	f, err := os.Open(path)
	if err != nil {
		return nil, 0, 0, err
	}
	defer f.Close()
	st, err := f.Stat()
	if err != nil {
		return nil, 0, 0, err
	}
	ino := st.Sys().(*syscall.Stat_t).Ino
	size := st.Size()
	if size == 0 {
		return nil, 0, ino, nil
	}
	const seekData, seekHole = 3, 4
	var out []byte
	off := int64(0)
	for off < size {
		d, err := f.Seek(off, seekData)
		if err != nil {
			break // no more data
		}
		h, err := f.Seek(d, seekHole)
		if err != nil {
			h = size
		}
		if int64(len(out)) < d {
			out = append(out, make([]byte, d-int64(len(out)))...)
		}
		buf := make([]byte, h-d)
		if _, err := f.ReadAt(buf, d); err != nil && err.Error() != "EOF" {
			return nil, 0, 0, err
		}
		out = append(out, buf...)
		off = h
	}
	return out, size, ino, nil
}

// rel: path of a file (or directory) relative to the scratch directory: "000001.vlog", "v/000001.vlog",
// "." / "v" for the directories themselves.
func (cr *crashRun) rel(path string) string {
	if r, err := filepath.Rel(cr.dir, path); err == nil && !strings.HasPrefix(r, "..") {
		return r
	}
	return filepath.Base(path)
}

func (cr *crashRun) snapshot() {
	ents, err := os.ReadDir(cr.dir)
	if err != nil {
		cr.err = err.Error()
		return
	}
	s := &crashSnap{Files: dirSnap{}, NEvents: len(cr.events), Issued: cr.issued, Acked: cr.acked}
	for _, e := range cr.events {
		s.Started = append(s.Started, e.Started)
	}
	var names []string
	for _, e := range ents {
		if e.IsDir() {
			// a separate ValueDir lives in the sub-directory "v" of the scratch directory
			if sub, err := os.ReadDir(filepath.Join(cr.dir, e.Name())); err == nil {
				for _, se := range sub {
					if !se.IsDir() {
						names = append(names, e.Name()+"/"+se.Name())
					}
				}
			}
			continue
		}
		names = append(names, e.Name())
	}
	for _, n := range names {
		data, size, ino, err := readSparse(filepath.Join(cr.dir, n))
		if err != nil {
			continue // vanished between ReadDir and open: cannot happen at quiescence
		}
		s.Files[n] = fileSnap{Ino: ino, Size: size, Blob: cr.blob(data)}
	}
	cr.snaps = append(cr.snaps, s)
}

// materialize writes an image into a fresh directory.
func (cr *crashRun) materialize(j *vlib.Job, img dirSnap) string {
	d := freshDir(j)
	for name, f := range img {
		p := filepath.Join(d, name)
		if strings.Contains(name, "/") {
			_ = os.MkdirAll(filepath.Dir(p), 0o755)
		}
		data := cr.blobs[f.Blob]
		fh, err := os.Create(p)
		if err != nil {
			panic(err)
		}
		if len(data) > 0 {
			n := int64(len(data))
			if n > f.Size {
				n = f.Size
			}
			if _, err := fh.Write(data[:n]); err != nil {
				panic(err)
			}
		}
		if err := fh.Truncate(f.Size); err != nil {
			panic(err)
		}
		fh.Close()
	}
	return d
}

// ---------------------------------------------------------------------------------------
// histories

// crashModel: the sequence of logical operations and the visible state after each prefix.
type crashOp struct {
	Name    string
	Writes  map[string]string // key -> value ("" = delete)
	DropP   []string          // prefixes dropped
	DropAll bool
	NoData  bool // maintenance: does not change the visible state
	TTL     map[string]bool // keys of Writes written with an expiry one (virtual) hour ahead, user meta 0x5a
}

// applyOpsExpired: the visible state once every TTL has passed (an expired write hides the key).
func applyOpsExpired(ops []crashOp) map[string]string {
	var o2 []crashOp
	for _, o := range ops {
		if len(o.TTL) > 0 {
			w := map[string]string{}
			for k, v := range o.Writes {
				if o.TTL[k] {
					v = ""
				}
				w[k] = v
			}
			o = crashOp{Name: o.Name, Writes: w}
		}
		o2 = append(o2, o)
	}
	return applyOps(o2)
}

func applyOps(ops []crashOp) map[string]string {
	m := map[string]string{}
	for _, o := range ops {
		switch {
		case o.DropAll:
			m = map[string]string{}
		case len(o.DropP) > 0:
			for k := range m {
				for _, p := range o.DropP {
					if strings.HasPrefix(k, p) {
						delete(m, k)
					}
				}
			}
		default:
			for k, v := range o.Writes {
				if v == "" {
					delete(m, k)
				} else {
					m[k] = v
				}
			}
		}
	}
	return m
}

func mapString(m map[string]string) string {
	ks := make([]string, 0, len(m))
	for k := range m {
		ks = append(ks, k)
	}
	sort.Strings(ks)
	var b strings.Builder
	for _, k := range ks {
		fmt.Fprintf(&b, "%s=%s ", k, shortVal(m[k]))
	}
	return b.String()
}

// valueDirOf: where the value directory of an image rooted at dir lives (the "v" sub-directory when the
// run was made with a separate ValueDir).
func valueDirOf(dir string, o Options) string {
	if o.ValueDir != o.Dir {
		_ = os.MkdirAll(filepath.Join(dir, "v"), 0o755)
		return filepath.Join(dir, "v")
	}
	return dir
}

func crashOpts(dir string, j *vlib.Job) Options {
	o := smallOpts(dir)
	o.MemTableSize = 16 << 10
	o.NumLevelZeroTables = 1 // one L0 table already makes L0 eligible: compactions happen in short histories
	o.NumLevelZeroTablesStall = 9
	o.NumMemtables = 4
	o.ValueThreshold = int64(j.Int("value_threshold", 64))
	o.BaseTableSize = 512
	o.BaseLevelSize = 2 << 10
	o.LevelSizeMultiplier = 2
	o.SyncWrites = j.Bool("sync_writes", false)
	if j.Bool("separate_value_dir", false) {
		o.ValueDir = filepath.Join(dir, "v") // value log and DISCARD in their own directory, with its own fsyncs
	}
	if j.Bool("encrypt", false) {
		o.EncryptionKey = bytes.Repeat([]byte{0x11}, 16)
		o.BlockCacheSize = 1 << 20
		o.IndexCacheSize = 1 << 20
	}
	return o
}

// histOps translates history tokens to model operations (values are tagged with the op index).
func histOps(hist []string) []crashOp {
	var ops []crashOp
	for i, h := range hist {
		tag := fmt.Sprintf("%d", i)
		switch h {
		case "T2":
			ops = append(ops, crashOp{Name: h, Writes: map[string]string{"k1": "t" + tag, "k2": "t" + tag}})
		case "TV":
			ops = append(ops, crashOp{Name: h, Writes: map[string]string{"k1": string(val("v"+tag+"-", 150)), "k3": "t" + tag}})
		case "TD":
			ops = append(ops, crashOp{Name: h, Writes: map[string]string{"k1": "", "k3": "d" + tag}})
		case "TX": // k1 (inline) and k2 (value log) with a TTL, k3 without
			ops = append(ops, crashOp{Name: h, Writes: map[string]string{"k1": "x" + tag, "k2": string(val("X"+tag+"-", 150)), "k3": "t" + tag}, TTL: map[string]bool{"k1": true, "k2": true}})
		case "WB":
			ops = append(ops, crashOp{Name: h, Writes: map[string]string{"k2": "b" + tag, "p1": "b" + tag, "p2": string(val("w"+tag+"-", 120))}})
		case "DP":
			ops = append(ops, crashOp{Name: h, DropP: []string{"k"}})
		case "DA":
			ops = append(ops, crashOp{Name: h, DropAll: true})
		default: // F, C, GC, R, FL
			ops = append(ops, crashOp{Name: h, NoData: true})
		}
	}
	return ops
}

// crashHeld: a read transaction with an open iterator kept across later operations of a history
// (IO opens it, IC closes it): an open iterator pins the memtables it was created over.
var crashHeld struct {
	txn *Txn
	it  *Iterator
}

func crashReleaseHeld() {
	if crashHeld.it != nil {
		crashHeld.it.Close()
		crashHeld.txn.Discard()
		crashHeld.it, crashHeld.txn = nil, nil
	}
}

func execHistOp(db **DB, opts Options, op crashOp) error {
	d := *db
	switch op.Name {
	case "IO":
		crashReleaseHeld()
		crashHeld.txn = d.NewTransaction(false)
		crashHeld.it = crashHeld.txn.NewIterator(DefaultIteratorOptions)
		crashHeld.it.Rewind()
		return nil
	case "IC":
		crashReleaseHeld()
		return nil
	case "T2", "TV", "TD", "TX":
		return d.Update(func(txn *Txn) error {
			ks := make([]string, 0, len(op.Writes))
			for k := range op.Writes {
				ks = append(ks, k)
			}
			sort.Strings(ks)
			for _, k := range ks {
				var err error
				if op.Writes[k] == "" {
					err = txn.Delete([]byte(k))
				} else if op.TTL[k] {
					err = txn.SetEntry(NewEntry([]byte(k), []byte(op.Writes[k])).WithTTL(time.Hour).WithMeta(0x5a))
				} else {
					err = txn.Set([]byte(k), []byte(op.Writes[k]))
				}
				if err != nil {
					return err
				}
			}
			return nil
		})
	case "WB":
		wb := d.NewWriteBatch()
		ks := make([]string, 0, len(op.Writes))
		for k := range op.Writes {
			ks = append(ks, k)
		}
		sort.Strings(ks)
		for _, k := range ks {
			if err := wb.Set([]byte(k), []byte(op.Writes[k])); err != nil {
				return err
			}
		}
		return wb.Flush()
	case "F":
		lsmFlushMode(d, true)
		return nil
	case "C":
		runOnceAs(d, 0)
		return nil
	case "C1":
		runOnceAs(d, 1)
		return nil
	case "GC":
		_ = d.RunValueLogGC(0.01)
		return nil
	case "FL":
		return d.Flatten(1)
	case "DP":
		return d.DropPrefix([]byte("k"))
	case "DA":
		return d.DropAll()
	case "R":
		crashReleaseHeld()
		if err := d.Close(); err != nil {
			return err
		}
		nd, err := Open(opts)
		if err != nil {
			return err
		}
		*db = nd
		return nil
	}
	return fmt.Errorf("unknown history op %q", op.Name)
}

// runHistory executes hist under the scheduler with every VerifIO as a point and a snapshot
// before every step.
func runHistory(t *testing.T, j *vlib.Job, hist []string) *crashRun {
	cr := &crashRun{hist: hist, blobs: map[string][]byte{}}
	inBubble(t, func() {
		cr.dir = freshDir(j)
		cr.opts = crashOpts(cr.dir, j)
		db := mustOpen(cr.opts)
		ops := histOps(hist)
		var evmu gosync.Mutex
		s := sched.New(nil, []string{"io"})
		s.AfterStep = func(*sched.Sched) { cr.snapshot() }
		y.VerifIOFn = func(op, path string) {
			if !s.Active() {
				return
			}
			ev := &ioEvent{Op: op}
			if op == "rename" {
				ps := strings.SplitN(path, "\x00", 2)
				ev.Path, ev.Path2 = cr.rel(ps[0]), cr.rel(ps[1])
			} else if op == "dirsync" {
				ev.Path = cr.rel(path) // "." or "v"
			} else {
				ev.Path = cr.rel(path)
				_, err := os.Stat(path)
				ev.Existed = err == nil
			}
			evmu.Lock()
			cr.events = append(cr.events, ev)
			evmu.Unlock()
			s.Point("io")
			ev.Started = true
		}
		var evErr error
		s.Run([]sched.Thread{{Name: "H", Body: func() {
			for _, op := range ops {
				cr.issued++
				if err := execHistOp(&db, cr.opts, op); err != nil {
					evErr = fmt.Errorf("%s: %v", op.Name, err)
					return
				}
				cr.acked++
				s.Point("io") // a snapshot boundary after every acknowledged op
			}
		}}})
		y.VerifIOFn = nil
		if evErr != nil {
			cr.err = evErr.Error()
		}
		if s.Deadlock {
			cr.err = "history did not finish: " + trimDump(s.Dump)
			return
		}
		cr.snapshot() // final state before Close
		crashReleaseHeld()
		_ = db.Close()
		_ = os.RemoveAll(cr.dir)
	})
	return cr
}

// ---------------------------------------------------------------------------------------
// images

type crashImage struct {
	Name  string
	Files dirSnap
	Snap  int
}

// c08Images: snapshot k as is, plus syscall-granularity variants for the pending events.
func (cr *crashRun) c08Images(k int) []crashImage {
	s := cr.snaps[k]
	out := []crashImage{{Name: fmt.Sprintf("snap%d", k), Files: s.Files, Snap: k}}
	for i := 0; i < s.NEvents; i++ {
		ev := cr.events[i]
		if s.Started[i] {
			continue
		}
		// pending event: the goroutine is parked right before the step
		switch ev.Op {
		case "open":
			if _, ok := s.Files[ev.Path]; !ok && (strings.HasSuffix(ev.Path, ".mem") || strings.HasSuffix(ev.Path, ".vlog") || strings.HasSuffix(ev.Path, ".sst")) {
				img := dirSnap{}
				for n, f := range s.Files {
					img[n] = f
				}
				img[ev.Path] = fileSnap{Size: 0, Blob: cr.blob(nil)}
				out = append(out, crashImage{Name: fmt.Sprintf("snap%d+created-empty:%s", k, ev.Path), Files: img, Snap: k})
			}
		case "unlink":
			if f, ok := s.Files[ev.Path]; ok && (strings.HasSuffix(ev.Path, ".mem") || strings.HasSuffix(ev.Path, ".vlog") || strings.HasSuffix(ev.Path, ".sst")) {
				img := dirSnap{}
				for n, ff := range s.Files {
					img[n] = ff
				}
				f.Size, f.Blob = 0, cr.blob(nil)
				img[ev.Path] = f
				out = append(out, crashImage{Name: fmt.Sprintf("snap%d+truncated-before-unlink:%s", k, ev.Path), Files: img, Snap: k})
			}
		}
	}
	return out
}

// c10Image builds the power-loss image for crash point k: names as of the last completed
// dirsync, contents as of the last completed msync/fsync/dwrite of each inode.
func (cr *crashRun) c10Images() []crashImage {
	type durFile struct {
		Size int64
		Blob string
	}
	durContent := map[uint64]durFile{} // inode -> durable content
	durNames := map[string]uint64{}    // name -> inode (as of the last dirsync)
	var out []crashImage
	doneBefore := make([]bool, len(cr.events))
	// initial state (snapshot 0 is taken after Open returned): Open's own syncs are not hooked
	// while the scheduler is inactive, so treat everything present at snapshot 0 as durable.
	for n, f := range cr.snaps[0].Files {
		durContent[f.Ino] = durFile{f.Size, f.Blob}
		durNames[n] = f.Ino
	}
	for k, s := range cr.snaps {
		// events that completed since the previous snapshot
		for i := 0; i < s.NEvents; i++ {
			if !s.Started[i] || doneBefore[i] {
				continue
			}
			doneBefore[i] = true
			ev := cr.events[i]
			switch ev.Op {
			case "msync", "fsync", "dwrite":
				if f, ok := s.Files[ev.Path]; ok {
					durContent[f.Ino] = durFile{f.Size, f.Blob}
				}
			case "dirsync":
				inDir := func(n string) bool { return filepath.Dir(n) == ev.Path }
				for n := range durNames {
					if inDir(n) {
						delete(durNames, n)
					}
				}
				for n, f := range s.Files {
					if !inDir(n) {
						continue
					}
					durNames[n] = f.Ino
					if _, ok := durContent[f.Ino]; !ok {
						// metadata (size) travels with the directory entry; content was never synced
						durContent[f.Ino] = durFile{f.Size, cr.blob(nil)}
					}
				}
			}
		}
		img := dirSnap{}
		for n, ino := range durNames {
			c, ok := durContent[ino]
			if !ok {
				c = durFile{0, cr.blob(nil)}
			}
			img[n] = fileSnap{Ino: ino, Size: c.Size, Blob: c.Blob}
		}
		out = append(out, crashImage{Name: fmt.Sprintf("powerloss%d", k), Files: img, Snap: k})
	}
	return out
}

// ---------------------------------------------------------------------------------------
// recovery oracle

func visibleState(db *DB) (map[string]string, uint64, error) {
	m := map[string]string{}
	var maxVer uint64
	err := db.View(func(txn *Txn) error {
		it := txn.NewIterator(DefaultIteratorOptions)
		defer it.Close()
		for it.Rewind(); it.Valid(); it.Next() {
			item := it.Item()
			v, err := item.ValueCopy(nil)
			if err != nil {
				return fmt.Errorf("value of %q: %v", item.Key(), err)
			}
			m[string(item.Key())] = string(v)
		}
		return nil
	})
	if err != nil {
		return nil, 0, err
	}
	// max stored version, including deleted versions and internal keys
	err = db.View(func(txn *Txn) error {
		o := DefaultIteratorOptions
		o.AllVersions, o.InternalAccess, o.PrefetchValues = true, true, false
		it := txn.NewIterator(o)
		defer it.Close()
		for it.Rewind(); it.Valid(); it.Next() {
			if v := it.Item().Version(); v > maxVer {
				maxVer = v
			}
		}
		return nil
	})
	// reading at MaxUint64 is not possible in normal mode; db.MaxVersion covers versions above readTs
	if mv := db.MaxVersion(); mv > maxVer {
		maxVer = mv
	}
	return m, maxVer, err
}

type recoverOpts struct {
	oracle string // c08 c10 c11 c14 c29 c09
}

// recoverImage opens the image with the production Open and checks the recovery contract.
// ops: model operations; acked/issued: how many were acknowledged / started at the crash.
func recoverImage(t *testing.T, j *vlib.Job, cr *crashRun, img crashImage, ops []crashOp, oracle string) (class, desc string) {
	s := cr.snaps[img.Snap]
	inBubble(t, func() {
		dir := cr.materialize(j, img.Files)
		defer os.RemoveAll(dir)
		o := cr.opts
		o.Dir, o.ValueDir = dir, valueDirOf(dir, o)
		if oracle == "c07ro" {
			// C07: a read-only open of ANY image (here: what a crash left behind), whether it
			// succeeds or is refused, and reading through it, changes no file
			h0 := hashDir(dir)
			before := map[string][]byte{}
			if ents, err := os.ReadDir(dir); err == nil {
				for _, en := range ents {
					before[en.Name()], _, _, _ = readSparse(filepath.Join(dir, en.Name()))
				}
			}
			ro := o
			ro.ReadOnly = true
			rdb, rerr := Open(ro)
			if rerr != nil {
				bubbleLeakOK = true
			} else {
				_, _, _ = visibleState(rdb)
				_ = rdb.Close()
			}
			if h1 := hashDir(dir); h1 != h0 {
				diff := ""
				for n, b := range before {
					a, _, _, err := readSparse(filepath.Join(dir, n))
					a, b = bytes.TrimRight(a, "\x00"), bytes.TrimRight(b, "\x00")
					if err != nil {
						diff += fmt.Sprintf(" %s: removed;", n)
						continue
					}
					i := 0
					for i < len(a) && i < len(b) && a[i] == b[i] {
						i++
					}
					if i < len(a) || i < len(b) {
						j := i + 24
						diff += fmt.Sprintf(" %s: length %d -> %d, first difference at offset %d (% x -> % x);", n, len(b), len(a), i, b[i:min(j, len(b))], a[i:min(j, len(a))])
					}
				}
				class, desc = "readonly-open-modified", fmt.Sprintf("image %s of history %v: a read-only Open (result: %v) changed the directory:%s\n  before %s\n  after  %s", img.Name, cr.hist, rerr, diff, h0, h1)
			}
			return
		}
		db, err := Open(o)
		if err != nil {
			bubbleLeakOK = true
			class, desc = "open-failed/"+imageKind(img.Name)+"/"+errClass(err), fmt.Sprintf("image %s of history %v: Open: %v\n  files: %s", img.Name, cr.hist, err, imgString(img.Files))
			return
		}
		closed := false
		defer func() {
			if !closed {
				_ = db.Close()
			}
		}()
		got, maxVer, err := visibleState(db)
		if err != nil {
			class, desc = "read-failed", fmt.Sprintf("image %s of history %v: %v", img.Name, cr.hist, err)
			return
		}
		if oracle == "c11" || oracle == "c14" {
			goto post
		}
		{
			// candidate states: every prefix of ops that contains all acknowledged ones
			match := -1
			var cands []string
			for n := s.Acked; n <= s.Issued && n <= len(ops); n++ {
				want := applyOps(ops[:n])
				cands = append(cands, fmt.Sprintf("[%d ops] %s", n, mapString(want)))
				if mapString(want) == mapString(got) {
					match = n
					break
				}
			}
			if match < 0 && oracle == "c29" && s.Issued > s.Acked && (ops[s.Acked].DropAll || len(ops[s.Acked].DropP) > 0) {
				// crash inside a drop: every key has its pre-drop value or is absent
				pre := applyOps(ops[:s.Acked])
				ok := true
				for k, v := range got {
					if pre[k] != v {
						ok = false
					}
				}
				if ok {
					match = s.Acked
				}
			}
			if match < 0 {
				class = "not-a-commit-prefix"
				desc = fmt.Sprintf("image %s of history %v (acked %d, issued %d): recovered {%s}, expected one of %v\n  files: %s", img.Name, cr.hist, s.Acked, s.Issued, mapString(got), cands, imgString(img.Files))
				return
			}
		}
	post:
		if oracle == "c33" {
			// C33 on recovered images: entries written with a TTL must still carry it (and their user
			// meta) after WAL / value-log replay: two virtual hours later they are gone, on every image
			um := map[string]byte{}
			_ = db.View(func(txn *Txn) error {
				for k := range got {
					if it, err := txn.Get([]byte(k)); err == nil {
						um[k] = it.UserMeta()
					}
				}
				return nil
			})
			for n := s.Acked; n <= s.Issued && n <= len(ops); n++ {
				if mapString(applyOps(ops[:n])) != mapString(got) {
					continue
				}
				last := map[string]crashOp{}
				for _, o := range ops[:n] {
					for k := range o.Writes {
						last[k] = o
					}
				}
				for k := range got {
					if want := last[k].TTL[k]; want != (um[k] == 0x5a) {
						class, desc = "expiry-meta-lost", fmt.Sprintf("image %s of history %v: key %s recovered with user meta %#x, written with TTL+meta=%v", img.Name, cr.hist, k, um[k], want)
						return
					}
				}
				time.Sleep(2 * time.Hour)
				later, _, err := visibleState(db)
				if err != nil {
					class, desc = "read-failed", fmt.Sprintf("image %s of history %v: %v", img.Name, cr.hist, err)
					return
				}
				if want := applyOpsExpired(ops[:n]); mapString(later) != mapString(want) {
					class, desc = "expiry-lost-in-recovery", fmt.Sprintf("image %s of history %v: two hours after recovery the database shows {%s}, with every TTL passed it must show {%s}", img.Name, cr.hist, mapString(later), mapString(want))
				}
				return
			}
			return
		}
		if oracle == "c14" || oracle == "all" {
			synctest.Wait() // recovery flushes the replayed memtables in the background: let it finish
			if c, d := lsmCheckStructure(&seqExec{db: db}); c != "" {
				class, desc = c, fmt.Sprintf("image %s of history %v: %s", img.Name, cr.hist, d)
				return
			}
		}
		if oracle == "c14" {
			return
		}
		// C11: new commits get timestamps above every stored version and shadow old data
		err = db.Update(func(txn *Txn) error {
			for _, k := range []string{"k1", "k2", "k3", "p1"} {
				if err := txn.Set([]byte(k), []byte("post-"+k)); err != nil {
					return err
				}
			}
			return nil
		})
		if err != nil {
			class, desc = "post-commit-failed", fmt.Sprintf("image %s of history %v: commit after recovery: %v", img.Name, cr.hist, err)
			return
		}
		err = db.View(func(txn *Txn) error {
			for _, k := range []string{"k1", "k2", "k3", "p1"} {
				it, err := txn.Get([]byte(k))
				if err != nil {
					return fmt.Errorf("get %s after post-recovery commit: %v", k, err)
				}
				v, _ := it.ValueCopy(nil)
				if string(v) != "post-"+k {
					return fmt.Errorf("key %s reads %q after a new commit (version %d, max stored version before %d)", k, shortVal(string(v)), it.Version(), maxVer)
				}
				if it.Version() <= maxVer {
					return fmt.Errorf("new commit got version %d <= stored max version %d", it.Version(), maxVer)
				}
			}
			return nil
		})
		if err != nil {
			if oracle == "c11" || oracle == "all" {
				class, desc = "stale-timestamp", fmt.Sprintf("image %s of history %v: %v", img.Name, cr.hist, err)
			}
			return
		}
		if oracle == "c11" {
			return
		}
		// recovery is idempotent: close, reopen, same state
		want2, _, _ := visibleState(db)
		if err := db.Close(); err != nil {
			closed = true
			class, desc = "close-failed", fmt.Sprintf("image %s of history %v: Close after recovery: %v", img.Name, cr.hist, err)
			return
		}
		closed = true
		db2, err := Open(o)
		if err != nil {
			bubbleLeakOK = true
			class, desc = "reopen-failed", fmt.Sprintf("image %s of history %v: second Open: %v", img.Name, cr.hist, err)
			return
		}
		got2, _, err := visibleState(db2)
		_ = db2.Close()
		if err != nil || mapString(got2) != mapString(want2) {
			class, desc = "reopen-differs", fmt.Sprintf("image %s of history %v: after close/reopen {%s}, before {%s} (err %v)", img.Name, cr.hist, mapString(got2), mapString(want2), err)
		}
	})
	return
}

// imageKind maps an image name to its family (for failure classes).
func imageKind(name string) string {
	switch {
	case strings.HasPrefix(name, "torn:"):
		f := "log"
		if strings.Contains(name, ManifestFilename) {
			f = "manifest"
		}
		v := name[strings.LastIndexByte(name, '/')+1:]
		if i := strings.IndexByte(v, '('); i >= 0 {
			v = v[:i]
		}
		return "torn-" + f + "-" + v
	case strings.Contains(name, "+created-empty"):
		return "created-empty" + filepath.Ext(name)
	case strings.Contains(name, "+truncated-before-unlink"):
		return "truncated-before-unlink" + filepath.Ext(name)
	case strings.HasPrefix(name, "powerloss"):
		return "powerloss"
	}
	return "snapshot"
}

// errClass normalises an error message (digits and paths removed).
func errClass(err error) string {
	s := err.Error()
	var b strings.Builder
	for _, r := range s {
		switch {
		case r >= '0' && r <= '9':
		case r == '\n':
			b.WriteByte(' ')
		default:
			b.WriteRune(r)
		}
	}
	out := b.String()
	if i := strings.Index(out, "/dev/shm"); i >= 0 {
		out = out[:i]
	}
	if len(out) > 70 {
		out = out[:70]
	}
	return strings.TrimSpace(out)
}

func imgString(img dirSnap) string {
	ns := make([]string, 0, len(img))
	for n := range img {
		ns = append(ns, n)
	}
	sort.Strings(ns)
	var b strings.Builder
	for _, n := range ns {
		fmt.Fprintf(&b, "%s(%d) ", n, img[n].Size)
	}
	return b.String()
}

// ---------------------------------------------------------------------------------------
// enumeration of histories

func crashHistories(alphabet []string, maxLen int, scripted [][]string) [][]string {
	var out [][]string
	var rec func(cur []string)
	rec = func(cur []string) {
		if len(cur) > 0 {
			// prune: maintenance ops first do nothing; require the first op to be a write
			out = append(out, append([]string{}, cur...))
		}
		if len(cur) == maxLen {
			return
		}
		for _, a := range alphabet {
			if len(cur) == 0 && (a == "F" || a == "C" || a == "GC" || a == "DP" || a == "DA" || a == "R" || a == "C1") {
				continue
			}
			if len(cur) > 0 && cur[len(cur)-1] == a && (a == "F" || a == "C" || a == "GC" || a == "R" || a == "DP" || a == "DA") {
				continue
			}
			rec(append(cur, a))
		}
	}
	rec(nil)
	// only maximal-length and scripted histories are needed: every prefix's crash points are
	// crash points of its extensions.  Keep histories of exactly maxLen.
	var full [][]string
	for _, h := range out {
		if len(h) == maxLen {
			full = append(full, h)
		}
	}
	return append(full, scripted...)
}

func crashWorker(name string, imagesOf func(cr *crashRun) []crashImage) scenarioFn {
	return func(t *testing.T, j *vlib.Job, r *vlib.Result) {
		oracle := j.Str("oracle", "c08")
		c09MaxPerStep = j.Int("max_per_step", 0)
		c09CutShort = j.Bool("cut_short", false)
		e := newEnum(t, j, r, name)
		e.journal = true
		alphabet := strings.Fields(j.Str("alphabet", "T2 TV WB F C"))
		var scripted [][]string
		for _, s := range strings.Split(j.Str("scripted", ""), ";") {
			if f := strings.Fields(s); len(f) > 0 {
				scripted = append(scripted, f)
			}
		}
		hists := crashHistories(alphabet, j.Int("len", 3), scripted)
		for _, h := range hists {
			h := h
			e.do(strings.Join(h, ","), func() (string, string) {
				cr := runHistory(t, j, h)
				if cr.err != "" {
					return "history-failed", fmt.Sprintf("history %v: %s", h, cr.err)
				}
				ops := histOps(h)
				imgs := imagesOf(cr)
				seen := map[string]bool{}
				for _, img := range imgs {
					sig := imgSig(img, cr.snaps[img.Snap])
					if seen[sig] {
						continue
					}
					seen[sig] = true
					r.AddExtra("images", 1)
					r.States++
					if c, d := recoverImage(t, j, cr, img, ops, oracle); c != "" {
						if j.IsKnown(c) {
							r.Violate(c, d, map[string]any{"scenario": name, "case": strings.Join(h, ",")}, strings.Join(h, ","), nil)
							r.AddExtra("known_finding_images", 1)
							continue
						}
						return c, d
					}
				}
				r.AddExtra("persistence_events", int64(len(cr.events)))
				for _, ev := range cr.events {
					r.AddExtra("ev_"+ev.Op+filepath.Ext(ev.Path), 1)
				}
				r.Transitions += int64(len(cr.snaps))
				return "", ""
			})
		}
		r.Distinct += r.Extra["images"] - r.Evaluations
	}
}

func imgSig(img crashImage, s *crashSnap) string {
	var b strings.Builder
	ns := make([]string, 0, len(img.Files))
	for n := range img.Files {
		ns = append(ns, n)
	}
	sort.Strings(ns)
	for _, n := range ns {
		f := img.Files[n]
		fmt.Fprintf(&b, "%s:%d:%x;", n, f.Size, f.Blob)
	}
	fmt.Fprintf(&b, "a%d/i%d", s.Acked, s.Issued)
	return b.String()
}

func init() {
	register("crash08", crashWorker("crash08", func(cr *crashRun) []crashImage {
		var out []crashImage
		for k := range cr.snaps {
			out = append(out, cr.c08Images(k)...)
		}
		return out
	}))
	register("crash10", crashWorker("crash10", func(cr *crashRun) []crashImage { return cr.c10Images() }))
}

// ---------------------------------------------------------------------------------------
// crash08c: concurrent committers x crash points.  Two (three) committer threads are explored
// under the scheduler; a snapshot is taken at every scheduling step of every schedule and
// recovered: the visible commits must be a prefix of the commit-timestamp order that contains
// every commit acknowledged before the snapshot.

type cc08State struct {
	cr      *crashRun
	names   []string
	writes  []map[string]string
	acked   []bool
	snapAck [][]bool
	txns    []*Txn
}

func init() {
	registerSched(&schedScenario{
		name:   "crash08c",
		points: []string{"op", "commit.ts", "send.enqueue", "write.vlog", "write.lsm", "commit.applied"},
		setup: func(x *schedExec) {
			o := crashOpts(x.dir, x.j)
			x.db = mustOpen(o)
			st := &cc08State{cr: &crashRun{dir: x.dir, blobs: map[string][]byte{}, opts: o}}
			st.names = []string{"T1", "T2", "T3"}[:x.j.Int("threads", 2)]
			st.writes = []map[string]string{{"a": "T1", "b": "T1"}, {"b": "T2", "c": string(val("T2-", 150))}, {"a": "T3", "c": "T3"}}
			st.acked = make([]bool, len(st.names))
			x.state = st
		},
		threads: func(x *schedExec) []sched.Thread {
			st := x.state.(*cc08State)
			var ths []sched.Thread
			for i, n := range st.names {
				i := i
				ths = append(ths, sched.Thread{Name: n, Body: func() {
					x.s.Point("op")
					txn := x.db.NewTransaction(true)
					ks := make([]string, 0, 2)
					for k := range st.writes[i] {
						ks = append(ks, k)
					}
					sort.Strings(ks)
					for _, k := range ks {
						if err := txn.Set([]byte(k), []byte(st.writes[i][k])); err != nil {
							panic(err)
						}
					}
					x.s.Point("op")
					if err := txn.Commit(); err != nil {
						panic(err)
					}
					st.acked[i] = true
				}})
			}
			return ths
		},
		afterStep: func(x *schedExec) string {
			st := x.state.(*cc08State)
			st.cr.snapshot()
			st.snapAck = append(st.snapAck, append([]bool{}, st.acked...))
			return ""
		},
		check: func(x *schedExec) (string, string, string) {
			st := x.state.(*cc08State)
			d := dumpAll(x.db)
			// commit ts of each txn from the live dump
			ts := make([]uint64, len(st.names))
			for i := range st.names {
				for k, v := range st.writes[i] {
					for _, e := range d[k] {
						if e.Val == v {
							ts[i] = e.Ver
						}
					}
				}
				if ts[i] == 0 {
					return "", fmt.Sprintf("%s acknowledged but not stored", st.names[i]), "lost-commit"
				}
			}
			order := make([]int, len(ts))
			for i := range order {
				order[i] = i
			}
			sort.Slice(order, func(a, b int) bool { return ts[order[a]] < ts[order[b]] })
			// expected states for each prefix of the commit order
			var prefixes []map[string]string
			cur := map[string]string{}
			prefixes = append(prefixes, map[string]string{})
			for _, i := range order {
				for k, v := range st.writes[i] {
					cur[k] = v
				}
				cp := map[string]string{}
				for k, v := range cur {
					cp[k] = v
				}
				prefixes = append(prefixes, cp)
			}
			seen := map[string]bool{}
			for k, s := range st.cr.snaps {
				sig := imgSig(crashImage{Files: s.Files}, s) + fmt.Sprint(st.snapAck[k])
				if seen[sig] {
					continue
				}
				seen[sig] = true
				dir := st.cr.materialize(x.j, s.Files)
				o := st.cr.opts
				o.Dir, o.ValueDir = dir, valueDirOf(dir, o)
				db, err := Open(o)
				if err != nil {
					return "", fmt.Sprintf("snapshot %d: Open: %v", k, err), "open-failed/concurrent"
				}
				got, _, err := visibleState(db)
				_ = db.Close()
				_ = os.RemoveAll(dir)
				if err != nil {
					return "", fmt.Sprintf("snapshot %d: %v", k, err), "read-failed"
				}
				match := -1
				for n, p := range prefixes {
					if mapString(p) == mapString(got) {
						match = n
					}
				}
				if match < 0 {
					return "", fmt.Sprintf("snapshot %d of schedule: recovered {%s} is not a prefix of the commit order %v (ts %v)", k, mapString(got), order, ts), "not-a-commit-prefix/concurrent"
				}
				for i, a := range st.snapAck[k] {
					if !a {
						continue
					}
					pos := 0
					for p, oi := range order {
						if oi == i {
							pos = p + 1
						}
					}
					if match < pos {
						return "", fmt.Sprintf("snapshot %d: %s was acknowledged but the recovered state {%s} does not contain it", k, st.names[i], mapString(got)), "acked-lost/concurrent"
					}
				}
				x.s.Log("img")
			}
			return fmt.Sprint(order), "", ""
		},
	})
}

// crash10c: concurrent committers under SyncWrites with every persistence step as a schedule
// point; after the run, the power-loss image of every step (contents as of the last completed
// msync/fsync, names as of the last directory fsync) is recovered and must contain every commit
// that had been acknowledged at that step, as a commit-order prefix.  The memtable is nearly full
// and the writer goroutine is kept busy by the first commit, so the next two requests are written
// as ONE batch with a memtable (and WAL) rotation between them.
func init() {
	registerSched(&schedScenario{
		name:   "crash10c",
		points: []string{"op", "io"},
		setup: func(x *schedExec) {
			if x.j.Params == nil {
				x.j.Params = map[string]any{}
			}
			x.j.Params["sync_writes"] = true
			o := crashOpts(x.dir, x.j)
			o.NumMemtables = 5
			o.ValueThreshold = 2400 // values stay inline: they are what fills the memtable
			if x.j.Bool("vlog", false) {
				o.ValueThreshold = 64
				o.ValueLogMaxEntries = 1 // the log rotates once a request has taken the count above 1: after the first request of a batch that follows T1
			}
			// the memtable's size decides when it rotates: skiplist tower heights must not be random
			hn := 0
			y.VerifHeightFn = func() int { hn++; return 1 + hn%3 }
			x.db = mustOpen(o)
			st := &cc08State{cr: &crashRun{dir: x.dir, blobs: map[string][]byte{}, opts: o}}
			st.names = []string{"T1", "T2", "T3"}
			st.writes = []map[string]string{{"c": "T1"}, {"a": string(val("T2-", 2100)), "b": "T2"}, {"b": "T3", "d": "T3"}}
			if x.j.Bool("vlog", false) {
				// value-log variant: every transaction carries one value-log value and the value log
				// rotates in the middle of a batch of two requests
				st.writes = []map[string]string{{"c": string(val("T1-", 150))}, {"a": string(val("T2-", 150)), "b": "T2"}, {"b": "T3", "d": string(val("T3-", 150))}}
			}
			st.acked = make([]bool, len(st.names))
			x.state = st
			// fill the memtable up to ~1-2 KiB below its limit: T2's 2100-byte value then fills it
			for i := 0; !x.j.Bool("vlog", false) && x.db.mt.sl.MemSize() < o.MemTableSize-2000; i++ {
				if err := x.db.Update(func(txn *Txn) error { return txn.Set([]byte(fmt.Sprintf("fill%03d", i)), val("f", 900)) }); err != nil {
					panic(err)
				}
			}
			// transactions are created up front so that the requests can share a batch (see c06dyn)
			for range st.names {
				st.txns = append(st.txns, x.db.NewTransaction(true))
			}
			var evmu gosync.Mutex
			y.VerifIOFn = func(op, path string) {
				if x.s == nil || !x.s.Active() {
					return
				}
				ev := &ioEvent{Op: op}
				if op == "rename" {
					ps := strings.SplitN(path, "\x00", 2)
					ev.Path, ev.Path2 = st.cr.rel(ps[0]), st.cr.rel(ps[1])
				} else if op == "dirsync" {
					ev.Path = st.cr.rel(path)
				} else {
					ev.Path = st.cr.rel(path)
					_, err := os.Stat(path)
					ev.Existed = err == nil
				}
				evmu.Lock()
				st.cr.events = append(st.cr.events, ev)
				evmu.Unlock()
				x.s.Point("io")
				ev.Started = true
			}
		},
		teardown: func(x *schedExec) {
			y.VerifIOFn = nil
			y.VerifHeightFn = nil
			if x.db != nil {
				_ = x.db.Close()
			}
		},
		threads: func(x *schedExec) []sched.Thread {
			st := x.state.(*cc08State)
			var ths []sched.Thread
			for i, n := range st.names {
				i := i
				txn := st.txns[i]
				ths = append(ths, sched.Thread{Name: n, Body: func() {
					x.s.Point("op")
					ks := make([]string, 0, 2)
					for k := range st.writes[i] {
						ks = append(ks, k)
					}
					sort.Strings(ks)
					for _, k := range ks {
						if err := txn.Set([]byte(k), []byte(st.writes[i][k])); err != nil {
							panic(err)
						}
					}
					if err := txn.Commit(); err != nil {
						panic(err)
					}
					st.acked[i] = true
				}})
			}
			return ths
		},
		afterStep: func(x *schedExec) string {
			st := x.state.(*cc08State)
			if len(st.cr.snaps) == 0 {
				// c10Images treats everything present at snapshot 0 as durable: it must be the state
				// right after the (synced) prefix, which it is: nothing has been released yet
			}
			st.cr.snapshot()
			st.snapAck = append(st.snapAck, append([]bool{}, st.acked...))
			return ""
		},
		check: func(x *schedExec) (string, string, string) {
			y.VerifIOFn = nil
			st := x.state.(*cc08State)
			d := dumpAll(x.db)
			ts := make([]uint64, len(st.names))
			for i := range st.names {
				for k, v := range st.writes[i] {
					for _, e := range d[k] {
						if e.Val == v {
							ts[i] = e.Ver
						}
					}
				}
				if ts[i] == 0 {
					return "", fmt.Sprintf("%s acknowledged but not stored", st.names[i]), "lost-commit"
				}
			}
			order := []int{0, 1, 2}
			sort.Slice(order, func(a, b int) bool { return ts[order[a]] < ts[order[b]] })
			var prefixes []map[string]string
			cur := map[string]string{}
			prefixes = append(prefixes, map[string]string{})
			for _, i := range order {
				for k, v := range st.writes[i] {
					cur[k] = v
				}
				cp := map[string]string{}
				for k, v := range cur {
					cp[k] = v
				}
				prefixes = append(prefixes, cp)
			}
			seen := map[string]bool{}
			rotated := false
			for _, sn := range st.cr.snaps {
				mems := 0
				for n := range sn.Files {
					if strings.HasSuffix(n, ".mem") {
						mems++
					}
				}
				if mems > 1 {
					rotated = true // the memtable (and its WAL) was rotated during the schedule
				}
			}
			for _, img := range st.cr.c10Images() {
				k := img.Snap
				sig := imgSig(img, st.cr.snaps[k]) + fmt.Sprint(st.snapAck[k])
				if seen[sig] {
					continue
				}
				seen[sig] = true
				dir := st.cr.materialize(x.j, img.Files)
				o := st.cr.opts
				o.Dir, o.ValueDir = dir, valueDirOf(dir, o)
				db, err := Open(o)
				if err != nil {
					_ = os.RemoveAll(dir)
					return "", fmt.Sprintf("power-loss image %s: Open: %v\n  files: %s", img.Name, err, imgString(img.Files)), "open-failed/powerloss/concurrent"
				}
				all, _, err := visibleState(db)
				_ = db.Close()
				_ = os.RemoveAll(dir)
				if err != nil {
					return "", fmt.Sprintf("power-loss image %s: %v", img.Name, err), "read-failed"
				}
				got := map[string]string{}
				for k, v := range all {
					if !strings.HasPrefix(k, "fill") {
						got[k] = v
					}
				}
				match := -1
				for n, p := range prefixes {
					if mapString(p) == mapString(got) {
						match = n
					}
				}
				if match < 0 {
					return "", fmt.Sprintf("power-loss image %s: recovered {%s} is not a prefix of the commit order %v", img.Name, mapString(got), order), "not-a-commit-prefix/powerloss-concurrent"
				}
				for i, a := range st.snapAck[k] {
					if !a {
						continue
					}
					pos := 0
					for p, oi := range order {
						if oi == i {
							pos = p + 1
						}
					}
					if match < pos {
						return "", fmt.Sprintf("power-loss image %s: %s was acknowledged (SyncWrites) but the recovered state {%s} does not contain it\n  files: %s", img.Name, st.names[i], mapString(got), imgString(img.Files)), "acked-lost/powerloss-concurrent"
					}
				}
				x.s.Log("img")
			}
			return fmt.Sprintf("%v rotated=%v", order, rotated), "", ""
		},
	})
}
