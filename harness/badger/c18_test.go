package badger

// C18 — SSTables return exactly the entries they were built from (E-enum), plus the end-to-end
// half of C19 (a table's bloom filter never hides a stored key).
//
// Entry sequences: every non-empty subset of 8 internal keys over user keys {a,aa,aab,ab,b}
// (shared-prefix shapes exercising the overlap/diff reconstruction), four value-size patterns
// around the block size, meta / user-meta / expiry variation.  Options: block size x compression
// x encryption x bloom x checksum mode x {file, in-memory}.

import (
	"bytes"
	"fmt"
	"os"
	"path/filepath"
	"sort"
	"strings"

	"github.com/dgraph-io/badger/v4/fb"
	"github.com/dgraph-io/badger/v4/options"
	"github.com/dgraph-io/badger/v4/pb"
	"github.com/dgraph-io/badger/v4/table"
	"github.com/dgraph-io/badger/v4/y"
	"github.com/dgraph-io/ristretto/v2"
)

var c18IndexCache *ristretto.Cache[uint64, *fb.TableIndex]

func c18Cache() *ristretto.Cache[uint64, *fb.TableIndex] {
	if c18IndexCache == nil {
		c, err := ristretto.NewCache(&ristretto.Config[uint64, *fb.TableIndex]{NumCounters: 1 << 12, MaxCost: 1 << 24, BufferItems: 64})
		if err != nil {
			panic(err)
		}
		c18IndexCache = c
	}
	return c18IndexCache
}

type c18Entry struct {
	key []byte // internal key
	v   y.ValueStruct
}

type c18Opt struct {
	blockSize int
	comp      options.CompressionType
	enc       bool
	bloom     float64
	chk       options.ChecksumVerificationMode
	inmem     bool
}

func (o c18Opt) String() string {
	return fmt.Sprintf("bs%d-c%d-e%v-bl%v-chk%d-mem%v", o.blockSize, o.comp, o.enc, o.bloom, o.chk, o.inmem)
}

func (o c18Opt) tableOptions() table.Options {
	to := table.Options{
		BlockSize:            o.blockSize,
		Compression:          o.comp,
		BloomFalsePositive:   o.bloom,
		ChkMode:              o.chk,
		TableSize:            512 << 10, // the builder's allocator is twice this
		ZSTDCompressionLevel: 1,
	}
	if o.enc {
		to.DataKey = &pb.DataKey{KeyId: 7, Data: []byte("0123456789abcdef0123456789abcdef")[:16+8*(o.blockSize%3)]}
		to.IndexCache = c18Cache() // required for encrypted tables
	}
	return to
}

var c18TableID uint64 = 1000

func c18NextID() uint64 { c18TableID++; return c18TableID }

// c18Build builds a table from entries with the production builder and opens it.
func c18Build(e *enumCtx, ents []c18Entry, o c18Opt) (*table.Table, error) {
	to := o.tableOptions()
	b := table.NewTableBuilder(to)
	defer b.Close()
	for i, en := range ents {
		// compactions add the delete markers / stale versions they must keep through AddStaleKey
		if en.v.Meta&bitDelete != 0 && i > 0 {
			b.AddStaleKey(en.key, en.v, uint32(len(en.v.Value)))
		} else {
			b.Add(en.key, en.v, uint32(len(en.v.Value)))
		}
	}
	c18TableID++
	if o.inmem {
		data := b.Finish()
		cp := append([]byte{}, data...)
		return table.OpenInMemoryTable(cp, c18TableID, &to)
	}
	dir := filepath.Join(e.j.Scratch, "c18")
	_ = os.MkdirAll(dir, 0o755)
	return table.CreateTable(table.NewFilename(c18TableID, dir), b)
}

func c18Same(k []byte, v y.ValueStruct, want c18Entry) bool {
	return bytes.Equal(k, want.key) && bytes.Equal(v.Value, want.v.Value) && v.Meta == want.v.Meta &&
		v.UserMeta == want.v.UserMeta && v.ExpiresAt == want.v.ExpiresAt
}

func c18Key(k []byte) string {
	uk := y.ParseKey(k)
	if len(uk) > 24 {
		return fmt.Sprintf("%q..%q(len %d)@%d", uk[:8], uk[len(uk)-4:], len(uk), y.ParseTs(k))
	}
	return fmt.Sprintf("%q@%d", uk, y.ParseTs(k))
}

func c18Fmt(k []byte, v y.ValueStruct) string {
	return fmt.Sprintf("%s(meta %x um %x exp %d len %d)", c18Key(k), v.Meta, v.UserMeta, v.ExpiresAt, len(v.Value))
}

type c18Iter interface {
	Rewind()
	Seek(key []byte)
	Next()
	Valid() bool
	Key() []byte
	Value() y.ValueStruct
	Close() error
}

// c18CheckIter checks Rewind-to-end and Seek(probe)-to-end of it against the sorted entries.
func c18CheckIter(name string, mk func(reversed bool) c18Iter, ents []c18Entry, probes [][]byte) string {
	for _, reversed := range []bool{false, true} {
		dir := "forward"
		exp := ents
		if reversed {
			dir = "reverse"
			exp = make([]c18Entry, len(ents))
			for i := range ents {
				exp[len(ents)-1-i] = ents[i]
			}
		}
		walk := func(it c18Iter, from int, what string) string {
			i := from
			for ; it.Valid(); it.Next() {
				if i >= len(exp) {
					return fmt.Sprintf("%s %s %s: extra entry %s after the %d expected", name, dir, what, c18Fmt(it.Key(), it.Value()), len(exp))
				}
				if !c18Same(it.Key(), it.Value(), exp[i]) {
					return fmt.Sprintf("%s %s %s: position %d is %s, want %s", name, dir, what, i, c18Fmt(it.Key(), it.Value()), c18Fmt(exp[i].key, exp[i].v))
				}
				i++
			}
			if i != len(exp) {
				return fmt.Sprintf("%s %s %s: iteration ended after %d of %d entries", name, dir, what, i, len(exp))
			}
			return ""
		}
		it := mk(reversed)
		it.Rewind()
		if s := walk(it, 0, "Rewind"); s != "" {
			it.Close()
			return s
		}
		// Rewind again after exhaustion must restart
		it.Rewind()
		if s := walk(it, 0, "second Rewind"); s != "" {
			it.Close()
			return s
		}
		for _, p := range probes {
			// forward: first entry >= p ; reverse: last entry <= p (i.e. first in reversed order)
			var from int
			if !reversed {
				from = sort.Search(len(exp), func(i int) bool { return y.CompareKeys(exp[i].key, p) >= 0 })
			} else {
				from = sort.Search(len(exp), func(i int) bool { return y.CompareKeys(exp[i].key, p) <= 0 })
			}
			it.Seek(p)
			if s := walk(it, from, "Seek("+c18Key(p)+")"); s != "" {
				it.Close()
				return s
			}
		}
		it.Close()
	}
	return ""
}

func c18Probes(universe [][]byte) [][]byte {
	probes := append([][]byte{}, universe...)
	for _, uk := range []string{"\x00", "a", "a\x00", "aa", "aaa", "aab", "aac", "ab", "ab\xff", "b", "c", "\xff\xff"} {
		for _, ts := range []uint64{0, 2, ^uint64(0)} {
			probes = append(probes, y.KeyWithTs([]byte(uk), ts))
		}
	}
	return probes
}

func c18Universe() []c18Entry {
	type kv struct {
		k  string
		ts uint64
	}
	var out []c18Entry
	for i, x := range []kv{{"a", 2}, {"a", 1}, {"aa", 1}, {"aab", 3}, {"aab", 1}, {"ab", 1}, {"b", 2}, {"b", 1}} {
		out = append(out, c18Entry{key: y.KeyWithTs([]byte(x.k), x.ts), v: y.ValueStruct{UserMeta: byte(i * 37)}})
	}
	return out
}

// c18Values fills in values by pattern vp (sizes relative to the block size) and varies meta/expiry.
func c18Values(ents []c18Entry, vp, blockSize int) []c18Entry {
	out := make([]c18Entry, len(ents))
	for i, en := range ents {
		var n int
		switch vp {
		case 0:
			n = 10
		case 1:
			n = []int{0, 10, blockSize - 20, blockSize + 20}[i%4]
		case 2:
			n = blockSize - 20
		case 3:
			n = []int{blockSize + 20, 0}[i%2]
		}
		if n < 0 {
			n = 0
		}
		v := en.v
		v.Value = bytes.Repeat([]byte{byte('A' + i)}, n)
		if n > 3 {
			copy(v.Value, fmt.Sprintf("%d|", i))
		}
		v.Meta = []byte{0, bitDelete, bitValuePointer, bitDiscardEarlierVersions | bitMergeEntry}[(i+vp)%4]
		if (i+vp)%3 == 0 {
			v.ExpiresAt = 1 << uint(7*(i%9))
		}
		out[i] = c18Entry{key: en.key, v: v}
	}
	return out
}

func c18Meta(t *table.Table, ents []c18Entry, o c18Opt) string {
	if !bytes.Equal(t.Smallest(), ents[0].key) {
		return fmt.Sprintf("Smallest = %q, want %q", t.Smallest(), ents[0].key)
	}
	if !bytes.Equal(t.Biggest(), ents[len(ents)-1].key) {
		return fmt.Sprintf("Biggest = %q, want %q", t.Biggest(), ents[len(ents)-1].key)
	}
	var mv uint64
	for _, en := range ents {
		if ts := y.ParseTs(en.key); ts > mv {
			mv = ts
		}
	}
	if t.MaxVersion() != mv {
		return fmt.Sprintf("MaxVersion = %d, want %d", t.MaxVersion(), mv)
	}
	if int(t.KeyCount()) != len(ents) {
		return fmt.Sprintf("KeyCount = %d, want %d", t.KeyCount(), len(ents))
	}
	if err := t.VerifyChecksum(); err != nil {
		return "VerifyChecksum on an intact table: " + err.Error()
	}
	return ""
}

func c18Bloom(t *table.Table, ents []c18Entry) string {
	for _, en := range ents {
		if t.DoesNotHave(y.Hash(y.ParseKey(en.key))) {
			return fmt.Sprintf("bloom filter reports stored key %q as absent", y.ParseKey(en.key))
		}
	}
	return ""
}

func c18Grid() []c18Opt {
	var g []c18Opt
	for _, bs := range []int{64, 4096} {
		for _, comp := range []options.CompressionType{options.None, options.Snappy, options.ZSTD} {
			for _, enc := range []bool{false, true} {
				for _, bloom := range []float64{0, 0.01} {
					for _, chk := range []options.ChecksumVerificationMode{options.NoVerification, options.OnTableRead, options.OnBlockRead, options.OnTableAndBlockRead} {
						for _, inmem := range []bool{true, false} {
							g = append(g, c18Opt{bs, comp, enc, bloom, chk, inmem})
						}
					}
				}
			}
		}
	}
	return g
}

func init() {
	registerEnum("c18table", func(e *enumCtx) {
		full := e.j.Bool("full_grid", false)
		grid := c18Grid()
		uni := c18Universe()
		ukeys := make([][]byte, len(uni))
		for i := range uni {
			ukeys[i] = uni[i].key
		}
		probes := c18Probes(ukeys)
		bloomOnly := e.j.Bool("bloom_only", false)
		for mask := 1; mask < 1<<len(uni); mask++ {
			var sub []c18Entry
			for i := range uni {
				if mask&(1<<i) != 0 {
					sub = append(sub, uni[i])
				}
			}
			for vp := 0; vp < 4; vp++ {
				mask, vp, sub := mask, vp, sub
				e.do(fmt.Sprintf("tbl/%02x/vp%d", mask, vp), func() (string, string) {
					for oi, o := range grid {
						// quick tier: each (subset, value pattern) takes a rotating 1/16 of the 192-option grid
						if !full && oi%16 != (mask*4+vp)%16 {
							continue
						}
						if bloomOnly && o.bloom == 0 {
							continue
						}
						ents := c18Values(sub, vp, o.blockSize)
						t, err := c18Build(e, ents, o)
						if err != nil {
							return "table-build", fmt.Sprintf("%v: %v", o, err)
						}
						fail := func(class, s string) (string, string) {
							_ = t.DecrRef()
							return class, fmt.Sprintf("options %v, %d entries: %s", o, len(ents), s)
						}
						if o.bloom > 0 {
							if s := c18Bloom(t, ents); s != "" {
								return fail("bloom-hides-key", s)
							}
						}
						e.r.AddExtra("tables", 1)
						if bloomOnly {
							_ = t.DecrRef()
							continue
						}
						if s := c18Meta(t, ents, o); s != "" {
							return fail("table-meta", s)
						}
						s := c18CheckIter("table iterator", func(rev bool) c18Iter {
							opt := 0
							if rev {
								opt = table.REVERSED
							}
							return t.NewIterator(opt)
						}, ents, probes)
						if s != "" {
							return fail("table-iteration", s)
						}
						if err := t.DecrRef(); err != nil {
							return "table-close", err.Error()
						}
					}
					return "", ""
				})
			}
		}
		if bloomOnly {
			return
		}
		// concatenated iteration: every split of every subset into <= 3 contiguous tables
		for mask := 1; mask < 1<<len(uni); mask++ {
			var sub []c18Entry
			for i := range uni {
				if mask&(1<<i) != 0 {
					sub = append(sub, uni[i])
				}
			}
			mask, sub := mask, sub
			e.do(fmt.Sprintf("concat/%02x", mask), func() (string, string) {
				for oi, o := range []c18Opt{{64, options.None, false, 0.01, options.OnTableAndBlockRead, true}, {64, options.Snappy, true, 0, options.NoVerification, false}} {
					ents := c18Values(sub, oi, o.blockSize)
					n := len(ents)
					for c1 := 1; c1 <= n; c1++ {
						for c2 := c1; c2 <= n; c2++ {
							if c2 > c1 && c2 == n {
								continue // third part empty: same as the two-part split
							}
							parts := [][]c18Entry{ents[:c1]}
							if c2 > c1 {
								parts = append(parts, ents[c1:c2], ents[c2:])
							} else if c1 < n {
								parts = append(parts, ents[c1:])
							}
							var tbls []*table.Table
							for _, p := range parts {
								t, err := c18Build(e, p, o)
								if err != nil {
									return "table-build", err.Error()
								}
								tbls = append(tbls, t)
							}
							s := c18CheckIter(fmt.Sprintf("concat iterator over %d tables split at %d,%d", len(tbls), c1, c2), func(rev bool) c18Iter {
								opt := 0
								if rev {
									opt = table.REVERSED
								}
								return table.NewConcatIterator(tbls, opt)
							}, ents, probes)
							for _, t := range tbls {
								_ = t.DecrRef()
							}
							e.r.AddExtra("concat_splits", 1)
							if s != "" {
								return "concat-iteration", fmt.Sprintf("options %v: %s", o, s)
							}
						}
					}
				}
				return "", ""
			})
		}
		// corruption: flip every byte of the data blocks; a verifying mode must never return altered
		// entries (it reports an error instead)
		for _, comp := range []options.CompressionType{options.None, options.Snappy} {
			for _, enc := range []bool{false, true} {
				for vp := 0; vp < 2; vp++ {
					comp, enc, vp := comp, enc, vp
					e.do(fmt.Sprintf("flip/c%d/e%v/vp%d", comp, enc, vp), func() (string, string) {
						o := c18Opt{64, comp, enc, 0.01, options.OnTableAndBlockRead, true}
						ents := c18Values(uni, vp, o.blockSize)
						to := o.tableOptions()
						b := table.NewTableBuilder(to)
						for _, en := range ents {
							b.Add(en.key, en.v, uint32(len(en.v.Value)))
						}
						good := append([]byte{}, b.Finish()...)
						b.Close()
						ref, err := table.OpenInMemoryTable(append([]byte{}, good...), c18NextID(), &to)
						if err != nil {
							return "table-build", err.Error()
						}
						dataEnd := c18DataEnd(ref)
						_ = ref.DecrRef()
						for pos := 0; pos < dataEnd; pos++ {
							bad := append([]byte{}, good...)
							bad[pos] ^= 0x41
							s := c18ReadCorrupt(bad, to, ents)
							e.r.AddExtra("byte_flips", 1)
							if s != "" {
								return "corrupt-block-returned", fmt.Sprintf("options %v, byte %d of %d flipped: %s", o, pos, dataEnd, s)
							}
						}
						return "", ""
					})
				}
			}
		}
		if e.j.Bool("large", false) {
			e.do("large", func() (string, string) {
				bigKey := bytes.Repeat([]byte("K"), 65000)
				ents := []c18Entry{
					{key: y.KeyWithTs([]byte("A"), 1), v: y.ValueStruct{Value: []byte("x")}}, // "A" sorts before the run of K
					{key: y.KeyWithTs(bigKey, 9), v: y.ValueStruct{Value: bytes.Repeat([]byte("v"), 64<<10), UserMeta: 3}},
					{key: y.KeyWithTs(bigKey, 2), v: y.ValueStruct{Value: nil, Meta: bitDelete}},
					{key: y.KeyWithTs(append(append([]byte{}, bigKey[:64999]...), 'L'), 1), v: y.ValueStruct{Value: []byte("tail")}},
				}
				var keys [][]byte
				for _, en := range ents {
					keys = append(keys, en.key)
				}
				for _, o := range c18Grid() {
					t, err := c18Build(e, ents, o)
					if err != nil {
						return "table-build", err.Error()
					}
					if s := c18Meta(t, ents, o); s != "" {
						_ = t.DecrRef()
						return "table-meta", fmt.Sprintf("%v: %s", o, s)
					}
					s := c18CheckIter("table iterator", func(rev bool) c18Iter {
						opt := 0
						if rev {
							opt = table.REVERSED
						}
						return t.NewIterator(opt)
					}, ents, c18Probes(keys))
					_ = t.DecrRef()
					if s != "" {
						return "table-iteration", fmt.Sprintf("%v: %s", o, s[:min(len(s), 400)])
					}
				}
				return "", ""
			})
		}
	})
}

// c18DataEnd returns the end offset of the last data block.
func c18DataEnd(t *table.Table) int {
	end := 0
	it := t.NewIterator(0)
	defer it.Close()
	_ = it
	// the index, its length, the checksum and its length follow the blocks: read the lengths back
	data := t.Data
	n := len(data)
	csLen := int(y.BytesToU32(data[n-4:]))
	n -= 4 + csLen
	idxLen := int(y.BytesToU32(data[n-4:]))
	end = n - 4 - idxLen
	return end
}

// c18ReadCorrupt opens the damaged image in a block-verifying mode and reads everything; returns
// a description if an altered entry was returned as data.
func c18ReadCorrupt(bad []byte, to table.Options, ents []c18Entry) (out string) {
	defer func() {
		if r := recover(); r != nil {
			// a panic on damaged input is not "returning altered data"; the property speaks about
			// what reads return.  (Recorded separately.)
			out = ""
		}
	}()
	t, err := table.OpenInMemoryTable(bad, c18NextID(), &to)
	if err != nil {
		return ""
	}
	defer t.DecrRef()
	want := map[string]c18Entry{}
	for _, en := range ents {
		want[string(en.key)] = en
	}
	for _, opt := range []int{0, table.REVERSED} {
		it := t.NewIterator(opt)
		for it.Rewind(); it.Valid(); it.Next() {
			w, ok := want[string(it.Key())]
			if !ok || !c18Same(it.Key(), it.Value(), w) {
				s := fmt.Sprintf("iteration returned %s which was never stored", c18Fmt(it.Key(), it.Value()))
				it.Close()
				return s
			}
		}
		it.Close()
	}
	return ""
}

var _ = strings.Contains
