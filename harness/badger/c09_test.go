package badger

// C09 — torn tails.  For every write step (WAL / value-log mmap write, MANIFEST append) of a
// history, the image "files as before the step, the written file torn at byte c" is built for
// every c inside the bytes that step changed: bytes before c as after the step, bytes from c on
// as before the step: for the pre-allocated mmap logs zeros up to the old length AND the file
// ending at c; for the MANIFEST "file ends at c" and "file extended to its new length but
// zero-filled".

import (
	"fmt"
	"strings"
)

func (cr *crashRun) c09Images(maxPerStep int) []crashImage {
	var out []crashImage
	for k := 0; k+1 < len(cr.snaps); k++ {
		pre, post := cr.snaps[k], cr.snaps[k+1]
		for name, pf := range post.Files {
			if !(strings.HasSuffix(name, ".mem") || strings.HasSuffix(name, ".vlog") || name == ManifestFilename) {
				continue
			}
			bf, ok := pre.Files[name]
			if !ok || bf.Ino != pf.Ino || (bf.Blob == pf.Blob && bf.Size == pf.Size) {
				continue
			}
			a, b := cr.blobs[bf.Blob], cr.blobs[pf.Blob]
			// changed region [lo, hi)
			lo := 0
			for lo < len(a) && lo < len(b) && a[lo] == b[lo] {
				lo++
			}
			hi := len(b)
			if len(a) > hi {
				hi = len(a)
			}
			if hi <= lo {
				continue
			}
			stride := 1
			if maxPerStep > 0 && hi-lo > maxPerStep {
				stride = (hi - lo + maxPerStep - 1) / maxPerStep
			}
			for c := lo; c < hi; c += stride {
				torn := make([]byte, 0, hi)
				torn = append(torn, b[:min(c, len(b))]...)
				if c < len(a) {
					torn = append(torn, a[c:]...)
				}
				mk := func(variant string, size int64, data []byte) {
					img := dirSnap{}
					for n, f := range pre.Files {
						img[n] = f
					}
					img[name] = fileSnap{Ino: pf.Ino, Size: size, Blob: cr.blob(data)}
					out = append(out, crashImage{Name: fmt.Sprintf("torn:%s@%d/%s(step %d)", name, c, variant, k), Files: img, Snap: k})
				}
				if name == ManifestFilename {
					if int64(c) >= bf.Size {
						mk("truncated", int64(c), torn)
						mk("zero-filled", pf.Size, torn)
					}
				} else {
					mk("zero-tail", pf.Size, torn)
					if c09CutShort && c >= 20 { // the file ends inside the record (the 20-byte log header stays)
						mk("cut-short", int64(c), torn[:c])
					}
				}
			}
		}
	}
	// the recovered state may include the in-flight operation: use the later issued count
	return out
}

// c09MaxPerStep caps the cut offsets per write step (0 = every byte); set from the job.
var c09MaxPerStep int

// c09CutShort adds, for the mmap logs, the images in which the file ends at the cut.
var c09CutShort bool

func init() {
	register("crash09", crashWorker("crash09", func(cr *crashRun) []crashImage { return cr.c09Images(c09MaxPerStep) }))
}
