package badger

// C31 — a merge operator returns the fold of all added values (E-seq).

import (
	"bytes"
	"fmt"
	"strings"
	"testing/synctest"
	"time"
)

type mergeState struct {
	ls      *lsmState
	op      *MergeOperator
	adds    []string
	sibling bool
	later   bool
}

func mergeConcat(existing, val []byte) []byte { return append(append([]byte{}, existing...), val...) }

func init() {
	registerSeq(&seqScenario{
		name: "merge",
		open: func(x *seqExec) {
			if x.j.Params == nil {
				x.j.Params = map[string]any{}
			}
			x.j.Params["mode"] = "normal"
			lsmOpen(x)
			ls := x.st.(*lsmState)
			x.st = &mergeState{ls: ls, op: x.db.GetMergeOperator([]byte("m"), mergeConcat, time.Hour)}
		},
		close: func(x *seqExec) {
			st := x.st.(*mergeState)
			st.op.Stop()
			x.st = st.ls
			lsmClose(x)
		},
		enabled: func(x *seqExec) []string {
			ops := []string{"MA", "MC", "F", "C0", "C1", "R", "SX", "SZ"} // SX: write a key that EXTENDS the merge key; SZ: a key that sorts after it
			if x.j.Bool("other", false) {
				ops = append(ops, "Sa") // an unrelated key sharing tables with the merge key
			}
			if x.j.Bool("gc", false) {
				ops = append(ops, "MB", "G") // MB: Add of a value that goes to the value log; G: value-log GC of the oldest sealed file
			}
			if only := x.j.Str("ops", ""); only != "" {
				allow := map[string]bool{}
				for _, o := range strings.Fields(only) {
					allow[o] = true
				}
				var f []string
				for _, o := range ops {
					if allow[o] {
						f = append(f, o)
					}
				}
				ops = f
			}
			return ops
		},
		apply: func(x *seqExec, op string) bool {
			st := x.st.(*mergeState)
			switch op {
			case "MA":
				v := fmt.Sprintf("<%d>", len(st.adds)+1)
				if err := st.op.Add([]byte(v)); err != nil {
					panic(err)
				}
				st.adds = append(st.adds, v)
				return true
			case "MB":
				v := fmt.Sprintf("<%d%s>", len(st.adds)+1, strings.Repeat(".", 200))
				if err := st.op.Add([]byte(v)); err != nil {
					panic(err)
				}
				st.adds = append(st.adds, v)
				return true
			case "SX":
				if st.sibling {
					return false
				}
				st.sibling = true
				if err := x.db.Update(func(txn *Txn) error { return txn.Set([]byte("m-sibling"), []byte("SIBLING")) }); err != nil {
					panic(err)
				}
				return true
			case "SZ":
				if st.later {
					return false
				}
				st.later = true
				if err := x.db.Update(func(txn *Txn) error { return txn.Set([]byte("z-later"), []byte("LATER")) }); err != nil {
					panic(err)
				}
				return true
			case "MC":
				before := len(dumpAll(x.db)["m"])
				if err := st.op.compact(); err != nil {
					panic(err)
				}
				synctest.Wait()
				return len(dumpAll(x.db)["m"]) != before || before > 1
			case "R":
				st.op.Stop()
				x.st = st.ls
				lsmApply(x, "R")
				x.st = st
				st.op = x.db.GetMergeOperator([]byte("m"), mergeConcat, time.Hour)
				return true
			default:
				x.st = st.ls
				ok := lsmApply(x, op)
				x.st = st
				return ok
			}
		},
		check: func(x *seqExec, op string) (string, string) {
			st := x.st.(*mergeState)
			got, err := st.op.Get()
			want := strings.Join(st.adds, "")
			if len(st.adds) == 0 {
				if err != ErrKeyNotFound {
					return "merge-empty", fmt.Sprintf("Get before the first Add = %q, %v; want ErrKeyNotFound", got, err)
				}
				return "", ""
			}
			if err != nil || string(got) != want {
				return "merge-fold", fmt.Sprintf("MergeOperator.Get = %.80q (err %v), want %.80q\n  versions: %s\n  lsm: %s", got, err, want, dumpString(dumpAll(x.db)), shapeString(x.db))
			}
			return "", ""
		},
		key: func(x *seqExec) string {
			st := x.st.(*mergeState)
			x.st = st.ls
			k := lsmKey(x)
			x.st = st
			return fmt.Sprintf("%s|adds%d|sib%v|later%v", k, 0, st.sibling, st.later)
		},
		describe: func(x *seqExec) string { return shapeString(x.db) },
	})
}

// c31alias (E-enum): a merge function that returns one of its arguments as it is (a maximum), with
// more un-merged versions than the iterator prefetches (100 by default): the fold must still be the
// maximum over all added values, wherever the largest one sits.
func init() {
	registerEnum("c31alias", func(e *enumCtx) {
		maxOf := func(existing, val []byte) []byte {
			if bytes.Compare(existing, val) >= 0 {
				return existing
			}
			return val
		}
		for _, n := range []int{2, 90, 101, 150} {
			for _, pos := range []int{0, 1, n / 2, n - 2, n - 1} {
				n, pos := n, pos
				if pos < 0 || pos >= n {
					continue
				}
				e.do(fmt.Sprintf("adds%d/max-at%d", n, pos), func() (string, string) {
					o := smallOpts("")
					o.InMemory, o.Dir, o.ValueDir = true, "", ""
					o.MemTableSize = 1 << 20
					db := mustOpen(o)
					defer db.Close()
					op := db.GetMergeOperator([]byte("m"), maxOf, time.Hour)
					defer op.Stop()
					for i := 0; i < n; i++ {
						v := []byte("1-value-padding-0123456789")
						if i == pos {
							v = []byte("9-value-padding-0123456789")
						}
						if err := op.Add(v); err != nil {
							return "merge-add", err.Error()
						}
					}
					got, err := op.Get()
					if err != nil || len(got) == 0 || got[0] != '9' {
						return "merge-fold", fmt.Sprintf("%d Adds, the largest value added as number %d: Get = %q (err %v), want the value starting with 9 (the merge function returns one of its arguments)", n, pos+1, got, err)
					}
					return "", ""
				})
			}
		}
	})
}
