package badger

// C29 concurrent part: a transaction that writes one key inside the dropped prefix and one kept
// key races DropPrefix / DropAll.  The final state must be "commit, then drop", "drop, then
// commit", or the commit failed with ErrBlockedWrites and left nothing; and the same state must be
// read after a re-open.

import (
	"fmt"
	"strings"

	"github.com/dgraph-io/badger/v4/vshim/sched"
)

type c29State struct {
	commitErr []error
	dropErr   error
	all       bool
}

func init() {
	registerSched(&schedScenario{
		name:   "c29race",
		points: []string{"op", "commit.ts", "send.enqueue", "write.lsm", "commit.applied", "drop.block", "dropall.stopcompact", "dropall.tree", "dropall.vlog", "dropprefix.levels"},
		setup: func(x *schedExec) {
			o := smallOpts(x.dir)
			x.db = mustOpen(o)
			c := x.j.Int("case", 0)
			st := &c29State{all: c%2 == 1}
			x.state = st
			put := func(k, v string) {
				if err := x.db.Update(func(txn *Txn) error { return txn.Set([]byte(k), []byte(v)) }); err != nil {
					panic(err)
				}
			}
			put("p1a", "old")
			put("p1b", "old")
			if c >= 2 {
				lsmFlush(x.db) // older data lives in a table, the rest in the memtable
			}
			put("q", "old")
		},
		threads: func(x *schedExec) []sched.Thread {
			st := x.state.(*c29State)
			commit := func(name, tag string) sched.Thread {
				return sched.Thread{Name: name, Body: func() {
					x.s.Point("op")
					err := x.db.Update(func(txn *Txn) error {
						if err := txn.Set([]byte("p1a"), []byte(tag)); err != nil {
							return err
						}
						return txn.Set([]byte("q"), []byte(tag))
					})
					st.commitErr = append(st.commitErr, err)
				}}
			}
			drop := sched.Thread{Name: "Drop", Body: func() {
				x.s.Point("op")
				if st.all {
					st.dropErr = x.db.DropAll()
				} else {
					st.dropErr = x.db.DropPrefix([]byte("p1"))
				}
			}}
			return []sched.Thread{commit("T", "new"), drop}
		},
		check: func(x *schedExec) (string, string, string) {
			st := x.state.(*c29State)
			if st.dropErr != nil {
				return "", "drop returned " + st.dropErr.Error(), "drop-error"
			}
			read := func() string {
				txn := x.db.NewTransaction(false)
				defer txn.Discard()
				return fmt.Sprintf("p1a=%s p1b=%s q=%s", getStr(txn, "p1a"), getStr(txn, "p1b"), getStr(txn, "q"))
			}
			got := read()
			err := st.commitErr[0]
			var legal []string
			switch {
			case err == nil && !st.all:
				legal = []string{"p1a=<nil> p1b=<nil> q=new", "p1a=new p1b=<nil> q=new"}
			case err == nil && st.all:
				legal = []string{"p1a=<nil> p1b=<nil> q=<nil>", "p1a=new p1b=<nil> q=new"}
			case err == ErrBlockedWrites && !st.all:
				legal = []string{"p1a=<nil> p1b=<nil> q=old"}
			case err == ErrBlockedWrites && st.all:
				legal = []string{"p1a=<nil> p1b=<nil> q=<nil>"}
			default:
				return "", fmt.Sprintf("commit racing a drop returned %v", err), "drop-commit-error"
			}
			ok := false
			for _, l := range legal {
				if l == got {
					ok = true
				}
			}
			if !ok {
				return "", fmt.Sprintf("commit returned %v, drop returned nil, final state {%s}; legal: %s", err, got, strings.Join(legal, " | ")), "drop-not-atomic"
			}
			// writes are still accepted
			if err := x.db.Update(func(txn *Txn) error { return txn.Set([]byte("p1z"), []byte("after")) }); err != nil {
				return "", "write after the drop: " + err.Error(), "drop-blocks-writes"
			}
			opt := x.db.opt
			if err := x.db.Close(); err != nil {
				return "", "close: " + err.Error(), "drop-close"
			}
			db, e2 := Open(opt)
			if e2 != nil {
				x.db = nil
				return "", "re-open: " + e2.Error(), "drop-reopen"
			}
			x.db = db
			if again := read(); again != got {
				return "", fmt.Sprintf("state after the drop {%s}, after re-open {%s}", got, again), "drop-not-durable"
			}
			return fmt.Sprintf("err=%v %s", err, got), "", ""
		},
	})
}
