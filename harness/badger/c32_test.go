package badger

// C32 — subscribers get every matching committed write exactly once, in commit order.

import (
	"bytes"
	"context"
	"fmt"
	"sort"
	"strings"
	"testing/synctest"
	"time"

	"github.com/dgraph-io/badger/v4/pb"
	"github.com/dgraph-io/badger/v4/trie"
	"github.com/dgraph-io/badger/v4/vshim/sched"
)

type c32Pattern struct {
	prefix []byte
	ignore []bool
	igStr  string
}

func (p c32Pattern) matches(key []byte) bool {
	if len(key) < len(p.prefix) {
		return false
	}
	for i, b := range p.prefix {
		if i < len(p.ignore) && p.ignore[i] {
			continue
		}
		if key[i] != b {
			return false
		}
	}
	return true
}

func (p c32Pattern) String() string { return fmt.Sprintf("%q/ig(%s)", p.prefix, p.igStr) }

func c32Strings(alpha []byte, maxLen int) [][]byte {
	out := [][]byte{{}}
	var rec func(cur []byte)
	rec = func(cur []byte) {
		if len(cur) == maxLen {
			return
		}
		for _, b := range alpha {
			n := append(append([]byte{}, cur...), b)
			out = append(out, n)
			rec(n)
		}
	}
	rec(nil)
	return out
}

func c32Patterns() []c32Pattern {
	var out []c32Pattern
	for _, pre := range c32Strings([]byte{'a', 'b', 0xff}, 3) {
		for mask := 0; mask < 8; mask++ {
			ig := make([]bool, 3)
			var list, rng []string
			for i := 0; i < 3; i++ {
				if mask&(1<<i) != 0 {
					ig[i] = true
					list = append(list, fmt.Sprint(i))
				}
			}
			out = append(out, c32Pattern{prefix: pre, ignore: ig, igStr: strings.Join(list, ",")})
			// the same mask written with a range where possible
			switch mask {
			case 3:
				rng = []string{"0-1"}
			case 6:
				rng = []string{"1-2"}
			case 7:
				rng = []string{"0-2"}
			}
			if rng != nil {
				out = append(out, c32Pattern{prefix: pre, ignore: ig, igStr: " " + rng[0] + " "})
			}
		}
	}
	return out
}

func init() {
	registerEnum("c32trie", func(e *enumCtx) {
		pats := c32Patterns()
		keys := c32Strings([]byte{'a', 'b', 0xff}, 4)
		for pi, p := range pats {
			p := p
			e.do(fmt.Sprintf("single/%d", pi), func() (string, string) {
				t := trie.NewTrie()
				if err := t.AddMatch(pb.Match{Prefix: p.prefix, IgnoreBytes: p.igStr}, 7); err != nil {
					return "trie-add", fmt.Sprintf("AddMatch(%v): %v", p, err)
				}
				for _, k := range keys {
					_, got := t.Get(k)[7]
					if got != p.matches(k) {
						return "trie-match", fmt.Sprintf("pattern %v key %q: trie says %v, reference %v", p, k, got, p.matches(k))
					}
				}
				if err := t.DeleteMatch(pb.Match{Prefix: p.prefix, IgnoreBytes: p.igStr}, 7); err != nil {
					return "trie-delete", err.Error()
				}
				for _, k := range keys {
					if len(t.Get(k)) != 0 {
						return "trie-delete", fmt.Sprintf("pattern %v deleted but key %q still matches", p, k)
					}
				}
				return "", ""
			})
		}
		// pairs and triples of patterns with different ids; delete one, the others stay exact
		stride := e.j.Int("stride", 7)
		for i := 0; i < len(pats); i += stride {
			for j := 1; j < len(pats); j += stride + 2 {
				i, j := i, j
				e.do(fmt.Sprintf("pair/%d/%d", i, j), func() (string, string) {
					t := trie.NewTrie()
					ps := []c32Pattern{pats[i], pats[j], pats[(i+j)%len(pats)]}
					for id, p := range ps {
						_ = t.AddMatch(pb.Match{Prefix: p.prefix, IgnoreBytes: p.igStr}, uint64(id))
					}
					check := func(alive []bool) string {
						for _, k := range keys {
							got := t.Get(k)
							for id, p := range ps {
								_, g := got[uint64(id)]
								if g != (alive[id] && p.matches(k)) {
									return fmt.Sprintf("patterns %v alive %v key %q: id %d matched=%v", ps, alive, k, id, g)
								}
							}
						}
						return ""
					}
					if d := check([]bool{true, true, true}); d != "" {
						return "trie-multi", d
					}
					_ = t.DeleteMatch(pb.Match{Prefix: ps[1].prefix, IgnoreBytes: ps[1].igStr}, 1)
					alive := []bool{true, false, true}
					if ps[0].String() == ps[1].String() || ps[2].String() == ps[1].String() {
						return "", "" // identical patterns share a node: ids are distinct, still fine
					}
					if d := check(alive); d != "" {
						return "trie-multi-delete", d
					}
					return "", ""
				})
			}
		}
	})

	type kvObs struct {
		Key, Val string
		Ver      uint64
		Exp      uint64
		Meta     byte
	}
	type c32State struct {
		cancel context.CancelFunc
		done   chan error
		pats   []c32Pattern
		got    []kvObs
		txns   []map[string]string
		names  []string
	}
	registerSched(&schedScenario{
		name:   "c32pub",
		points: []string{"op", "commit.ts", "write.lsm", "write.pub", "commit.applied"},
		setup: func(x *schedExec) {
			o := smallOpts(x.dir)
			o.InMemory, o.Dir, o.ValueDir = true, "", ""
			o.managedTxns = x.j.Int("case", 0) == 4 // case 4: managed mode, one request carrying several versions
			x.db = mustOpen(o)
			st := &c32State{done: make(chan error, 1)}
			switch x.j.Int("case", 0) {
			case 4:
				st.pats = []c32Pattern{{prefix: []byte("ab"), igStr: ""}}
			case 0:
				st.pats = []c32Pattern{{prefix: []byte("ab\xff"), igStr: ""}}
			case 1:
				st.pats = []c32Pattern{{prefix: []byte("ab"), igStr: ""}}
			case 2:
				st.pats = []c32Pattern{{prefix: []byte("xb"), ignore: []bool{true}, igStr: "0"}, {prefix: []byte("c"), igStr: ""}}
			case 3:
				st.pats = []c32Pattern{{prefix: []byte{}, igStr: ""}}
			}
			var ms []pb.Match
			for _, p := range st.pats {
				ms = append(ms, pb.Match{Prefix: p.prefix, IgnoreBytes: p.igStr})
			}
			ctx, cancel := context.WithCancel(context.Background())
			st.cancel = cancel
			go func() {
				st.done <- x.db.Subscribe(ctx, func(kvs *KVList) error {
					for _, kv := range kvs.Kv {
						var m byte
						if len(kv.Meta) > 0 {
							m = kv.Meta[0]
						}
						st.got = append(st.got, kvObs{string(kv.Key), string(kv.Value), kv.Version, kv.ExpiresAt, m})
					}
					return nil
				}, ms)
			}()
			st.txns = []map[string]string{{"ab": "T0", "abc": "T0"}, {"ab\xffz": "T1", "cb": "T1", "zz": "T1"}, {"ab": "T2"}}
			st.names = []string{"T0", "T1", "T2"}
			x.state = st
		},
		threads: func(x *schedExec) []sched.Thread {
			st := x.state.(*c32State)
			var ths []sched.Thread
			for i := range st.txns[:x.j.Int("writers", 2)+1] {
				i := i
				if i == 2 {
					continue
				}
				ths = append(ths, sched.Thread{Name: st.names[i], Body: func() {
					x.s.Point("op")
					if x.db.opt.managedTxns {
						// a managed write batch: the keys of this writer at two different versions in one request
						wb := x.db.NewManagedWriteBatch()
						ks := make([]string, 0)
						for k := range st.txns[i] {
							ks = append(ks, k)
						}
						sort.Strings(ks)
						for n, k := range ks {
							e := NewEntry([]byte(k), []byte(st.txns[i][k])).WithMeta(byte(5 + i))
							if err := wb.SetEntryAt(e, uint64(10*(i+1)+n)); err != nil {
								panic(err)
							}
						}
						if err := wb.Flush(); err != nil {
							panic(err)
						}
						return
					}
					err := x.db.Update(func(txn *Txn) error {
						ks := make([]string, 0)
						for k := range st.txns[i] {
							ks = append(ks, k)
						}
						sort.Strings(ks)
						for _, k := range ks {
							e := NewEntry([]byte(k), []byte(st.txns[i][k])).WithMeta(byte(5 + i))
							if err := txn.SetEntry(e); err != nil {
								return err
							}
						}
						return nil
					})
					if err != nil {
						panic(err)
					}
				}})
			}
			return ths
		},
		teardown: func(x *schedExec) {
			st := x.state.(*c32State)
			st.cancel()
			<-st.done
			_ = x.db.Close()
		},
		check: func(x *schedExec) (string, string, string) {
			st := x.state.(*c32State)
			d := dumpAll(x.db)
			type want struct {
				key, val string
				ver      uint64
			}
			var ws []want
			for k, vs := range d {
				matched := false
				for _, p := range st.pats {
					if p.matches([]byte(k)) {
						matched = true
					}
				}
				if !matched {
					continue
				}
				for _, e := range vs {
					ws = append(ws, want{k, e.Val, e.Ver})
				}
			}
			sort.Slice(ws, func(i, j int) bool {
				if ws[i].ver != ws[j].ver {
					return ws[i].ver < ws[j].ver
				}
				return ws[i].key < ws[j].key
			})
			var got []kvObs
			for _, g := range st.got {
				if bytes.HasPrefix([]byte(g.Key), badgerPrefix) {
					continue // the property speaks about user keys
				}
				got = append(got, g)
			}
			// nothing for keys matching no pattern
			for _, g := range got {
				ok := false
				for _, p := range st.pats {
					if p.matches([]byte(g.Key)) {
						ok = true
					}
				}
				if !ok {
					return "", fmt.Sprintf("subscriber with patterns %v received key %q (value %q) which matches none of them", st.pats, g.Key, g.Val), "publisher-unmatched-key"
				}
			}
			if len(got) != len(ws) {
				return "", fmt.Sprintf("subscriber received %d KVs %v, expected %d %v", len(got), got, len(ws), ws), "publisher-count"
			}
			// commit-timestamp order; within one commit any order
			for i := 1; i < len(got); i++ {
				// (managed mode: versions are chosen by the callers, application order need not follow them)
				if got[i-1].Ver > got[i].Ver && !x.db.opt.managedTxns {
					return "", fmt.Sprintf("KVs not in commit order: %v", got), "publisher-order"
				}
			}
			sort.SliceStable(got, func(i, j int) bool {
				if got[i].Ver != got[j].Ver {
					return got[i].Ver < got[j].Ver
				}
				return got[i].Key < got[j].Key
			})
			for i := range ws {
				if got[i].Key != ws[i].key || got[i].Val != ws[i].val || got[i].Ver != ws[i].ver {
					return "", fmt.Sprintf("KV %d = %+v, expected %+v", i, got[i], ws[i]), "publisher-content"
				}
				if got[i].Meta < 5 {
					return "", fmt.Sprintf("KV %d user meta %d", i, got[i].Meta), "publisher-meta"
				}
			}
			return fmt.Sprint(len(got)), "", ""
		},
	})
}

// c32side (E-enum, inside a bubble): what a subscriber receives when the database itself writes, and
// when a Subscribe call is refused.  A healthy subscriber on prefix "k" / "m" is registered first.
//   gc       commits with value-log values, then a forced value-log GC of the oldest files: the
//            rewrite moves values, it commits nothing - the subscriber must get nothing more
//   merge    a merge operator adds twice and is stopped (it writes the merged value back): the
//            subscriber gets the two committed adds and nothing that nobody committed
//   refused  a second Subscribe with a pattern that cannot be parsed is refused; it must leave nothing
//            behind: 1100 later commits all return and all reach the healthy subscriber
//   buffer   the caller re-uses its value buffer right after Commit has returned: the subscriber must
//            get the committed value
func init() {
	registerEnum("c32side", func(e *enumCtx) {
		for _, kind := range []string{"gc", "merge", "refused", "buffer"} {
			kind := kind
			e.do(kind, func() (c, d string) {
				inBubble(e.t, func() {
					dir := freshDir(e.j)
					defer removeAll(dir)
					o := smallOpts(dir)
					o.ValueThreshold = 64
					o.ValueLogMaxEntries = 2
					o.NumLevelZeroTables, o.NumLevelZeroTablesStall = 1<<20, 1<<21
					if kind != "gc" {
						// in memory: no periodic timers, so a wedged publisher shows as a deadlock of the bubble
						o.InMemory, o.Dir, o.ValueDir = true, "", ""
					}
					db := mustOpen(o)
					defer func() {
						_ = db.Close()
					}()
					type got struct {
						key, val string
						ver      uint64
					}
					var recv []got
					ctx, cancel := context.WithCancel(context.Background())
					subDone := false
					go func() {
						_ = db.Subscribe(ctx, func(kvs *KVList) error {
							for _, kv := range kvs.Kv {
								if !bytes.HasPrefix(kv.Key, []byte("!badger!")) {
									recv = append(recv, got{string(kv.Key), string(kv.Value), kv.Version})
								}
							}
							return nil
						}, []pb.Match{{Prefix: []byte("k")}, {Prefix: []byte("m")}})
						subDone = true
					}()
					synctest.Wait()
					stop := func() {
						cancel()
						synctest.Wait()
						_ = subDone
					}
					defer stop()
					dup := func() string {
						seen := map[string]int{}
						for _, g := range recv {
							seen[fmt.Sprintf("%s@%d", g.key, g.ver)]++
						}
						for k, n := range seen {
							if n > 1 {
								return fmt.Sprintf("%s delivered %d times", k, n)
							}
						}
						return ""
					}
					switch kind {
					case "gc":
						n := 8
						for i := 0; i < n; i++ {
							k := fmt.Sprintf("k%02d", i)
							if err := db.Update(func(txn *Txn) error { return txn.Set([]byte(k), val(k+"|", 200)) }); err != nil {
								panic(err)
							}
						}
						synctest.Wait()
						if len(recv) != n {
							c, d = "subscriber-count", fmt.Sprintf("%d commits, %d KVs delivered", n, len(recv))
							return
						}
						for round := 0; round < 3; round++ {
							db.vlog.filesLock.RLock()
							fids := db.vlog.sortedFids()
							db.vlog.filesLock.RUnlock()
							db.vlog.discardStats.Update(fids[0], 1<<30)
							if err := db.RunValueLogGC(0.01); err != nil && err != ErrNoRewrite && err != ErrRejected {
								c, d = "gc-error", err.Error()
								return
							}
							synctest.Wait()
						}
						if len(recv) != n {
							c, d = "subscriber-internal-write-delivered/gc", fmt.Sprintf("after %d commits (all delivered) a value-log GC ran and no commit: the subscriber received %d more KVs (%s; last: %v): the rewrite's write-back is published as if it were a commit", n, len(recv)-n, dup(), recv[len(recv)-1])
						}
					case "merge":
						op := db.GetMergeOperator([]byte("m"), mergeConcat, time.Hour)
						_ = op.Add([]byte("<1>"))
						_ = op.Add([]byte("<2>"))
						synctest.Wait()
						before := len(recv)
						op.Stop()
						synctest.Wait()
						if before != 2 || len(recv) != 2 {
							c, d = "subscriber-internal-write-delivered/merge", fmt.Sprintf("two Adds were committed (%d KVs delivered); stopping the merge operator (it writes the merged value back) delivered %d more: %v", before, len(recv)-before, recv)
						}
					case "refused":
						before := db.pub.noOfSubscribers()
						err := db.Subscribe(context.Background(), func(*KVList) error { return nil }, []pb.Match{{Prefix: []byte("k")}, {Prefix: []byte("k"), IgnoreBytes: "x"}})
						if err == nil {
							c, d = "subscribe-accepted", "a pattern with IgnoreBytes \"x\" was accepted"
							return
						}
						if after := db.pub.noOfSubscribers(); after != before {
							// (not driven to the wedge itself: 1000 commits later the publisher blocks on the
							// left-over subscriber's full channel with its lock held, and neither a commit nor
							// Close returns any more)
							c, d = "subscriber-left-behind-by-refused-subscribe", fmt.Sprintf("Subscribe was refused (%v) but the publisher now has %d subscribers instead of %d: nobody will ever read the left-over subscriber's channel (1000 entries), and its closer is never released, so the publisher and Close block for ever", err, after, before)
							// remove it again so that the bubble can be torn down
							db.pub.Lock()
							for id, sub := range db.pub.subscribers {
								if id != 0 { // id 0 is the healthy subscriber
									sub.subCloser.Done()
									delete(db.pub.subscribers, id)
								}
							}
							db.pub.Unlock()
							return
						}
						for i := 0; i < 1100; i++ {
							k := fmt.Sprintf("k%04d", i)
							if err := db.Update(func(txn *Txn) error { return txn.Set([]byte(k), []byte("v")) }); err != nil {
								panic(err)
							}
						}
						synctest.Wait()
						if len(recv) != 1100 {
							c, d = "subscriber-count", fmt.Sprintf("1100 commits, %d KVs delivered", len(recv))
						}
					case "buffer":
						bad := 0
						for i := 0; i < 20; i++ {
							buf := []byte("AAAAAAAA")
							k := fmt.Sprintf("k%02d", i)
							if err := db.Update(func(txn *Txn) error { return txn.Set([]byte(k), buf) }); err != nil {
								panic(err)
							}
							copy(buf, "BBBBBBBB") // the transaction is over: the buffer is the caller's again
							synctest.Wait()
						}
						for _, g := range recv {
							if g.val != "AAAAAAAA" {
								bad++
							}
						}
						if bad > 0 || len(recv) != 20 {
							c, d = "subscriber-value-not-committed", fmt.Sprintf("20 commits of value AAAAAAAA, the buffer re-used after each Commit returned: %d KVs delivered, %d of them with a value that was never committed (e.g. %v)", len(recv), bad, recv[0])
						}
					}
				})
				return
			})
		}
	})
}
