package badger

// C32 — subscribers get every matching committed write exactly once, in commit order.

import (
	"bytes"
	"context"
	"fmt"
	"sort"
	"strings"

	"github.com/dgraph-io/badger/v4/pb"
	"github.com/dgraph-io/badger/v4/trie"
	"github.com/dgraph-io/badger/v4/vshim/sched"
)

type c32Pattern struct {
	prefix []byte
	ignore []bool
	igStr  string
}

func (p c32Pattern) matches(key []byte) bool {
	if len(key) < len(p.prefix) {
		return false
	}
	for i, b := range p.prefix {
		if i < len(p.ignore) && p.ignore[i] {
			continue
		}
		if key[i] != b {
			return false
		}
	}
	return true
}

func (p c32Pattern) String() string { return fmt.Sprintf("%q/ig(%s)", p.prefix, p.igStr) }

func c32Strings(alpha []byte, maxLen int) [][]byte {
	out := [][]byte{{}}
	var rec func(cur []byte)
	rec = func(cur []byte) {
		if len(cur) == maxLen {
			return
		}
		for _, b := range alpha {
			n := append(append([]byte{}, cur...), b)
			out = append(out, n)
			rec(n)
		}
	}
	rec(nil)
	return out
}

func c32Patterns() []c32Pattern {
	var out []c32Pattern
	for _, pre := range c32Strings([]byte{'a', 'b', 0xff}, 3) {
		for mask := 0; mask < 8; mask++ {
			ig := make([]bool, 3)
			var list, rng []string
			for i := 0; i < 3; i++ {
				if mask&(1<<i) != 0 {
					ig[i] = true
					list = append(list, fmt.Sprint(i))
				}
			}
			out = append(out, c32Pattern{prefix: pre, ignore: ig, igStr: strings.Join(list, ",")})
			// the same mask written with a range where possible
			switch mask {
			case 3:
				rng = []string{"0-1"}
			case 6:
				rng = []string{"1-2"}
			case 7:
				rng = []string{"0-2"}
			}
			if rng != nil {
				out = append(out, c32Pattern{prefix: pre, ignore: ig, igStr: " " + rng[0] + " "})
			}
		}
	}
	return out
}

func init() {
	registerEnum("c32trie", func(e *enumCtx) {
		pats := c32Patterns()
		keys := c32Strings([]byte{'a', 'b', 0xff}, 4)
		for pi, p := range pats {
			p := p
			e.do(fmt.Sprintf("single/%d", pi), func() (string, string) {
				t := trie.NewTrie()
				if err := t.AddMatch(pb.Match{Prefix: p.prefix, IgnoreBytes: p.igStr}, 7); err != nil {
					return "trie-add", fmt.Sprintf("AddMatch(%v): %v", p, err)
				}
				for _, k := range keys {
					_, got := t.Get(k)[7]
					if got != p.matches(k) {
						return "trie-match", fmt.Sprintf("pattern %v key %q: trie says %v, reference %v", p, k, got, p.matches(k))
					}
				}
				if err := t.DeleteMatch(pb.Match{Prefix: p.prefix, IgnoreBytes: p.igStr}, 7); err != nil {
					return "trie-delete", err.Error()
				}
				for _, k := range keys {
					if len(t.Get(k)) != 0 {
						return "trie-delete", fmt.Sprintf("pattern %v deleted but key %q still matches", p, k)
					}
				}
				return "", ""
			})
		}
		// pairs and triples of patterns with different ids; delete one, the others stay exact
		stride := e.j.Int("stride", 7)
		for i := 0; i < len(pats); i += stride {
			for j := 1; j < len(pats); j += stride + 2 {
				i, j := i, j
				e.do(fmt.Sprintf("pair/%d/%d", i, j), func() (string, string) {
					t := trie.NewTrie()
					ps := []c32Pattern{pats[i], pats[j], pats[(i+j)%len(pats)]}
					for id, p := range ps {
						_ = t.AddMatch(pb.Match{Prefix: p.prefix, IgnoreBytes: p.igStr}, uint64(id))
					}
					check := func(alive []bool) string {
						for _, k := range keys {
							got := t.Get(k)
							for id, p := range ps {
								_, g := got[uint64(id)]
								if g != (alive[id] && p.matches(k)) {
									return fmt.Sprintf("patterns %v alive %v key %q: id %d matched=%v", ps, alive, k, id, g)
								}
							}
						}
						return ""
					}
					if d := check([]bool{true, true, true}); d != "" {
						return "trie-multi", d
					}
					_ = t.DeleteMatch(pb.Match{Prefix: ps[1].prefix, IgnoreBytes: ps[1].igStr}, 1)
					alive := []bool{true, false, true}
					if ps[0].String() == ps[1].String() || ps[2].String() == ps[1].String() {
						return "", "" // identical patterns share a node: ids are distinct, still fine
					}
					if d := check(alive); d != "" {
						return "trie-multi-delete", d
					}
					return "", ""
				})
			}
		}
	})

	type kvObs struct {
		Key, Val string
		Ver      uint64
		Exp      uint64
		Meta     byte
	}
	type c32State struct {
		cancel context.CancelFunc
		done   chan error
		pats   []c32Pattern
		got    []kvObs
		txns   []map[string]string
		names  []string
	}
	registerSched(&schedScenario{
		name:   "c32pub",
		points: []string{"op", "commit.ts", "write.lsm", "write.pub", "commit.applied"},
		setup: func(x *schedExec) {
			o := smallOpts(x.dir)
			o.InMemory, o.Dir, o.ValueDir = true, "", ""
			o.managedTxns = x.j.Int("case", 0) == 4 // case 4: managed mode, one request carrying several versions
			x.db = mustOpen(o)
			st := &c32State{done: make(chan error, 1)}
			switch x.j.Int("case", 0) {
			case 4:
				st.pats = []c32Pattern{{prefix: []byte("ab"), igStr: ""}}
			case 0:
				st.pats = []c32Pattern{{prefix: []byte("ab\xff"), igStr: ""}}
			case 1:
				st.pats = []c32Pattern{{prefix: []byte("ab"), igStr: ""}}
			case 2:
				st.pats = []c32Pattern{{prefix: []byte("xb"), ignore: []bool{true}, igStr: "0"}, {prefix: []byte("c"), igStr: ""}}
			case 3:
				st.pats = []c32Pattern{{prefix: []byte{}, igStr: ""}}
			}
			var ms []pb.Match
			for _, p := range st.pats {
				ms = append(ms, pb.Match{Prefix: p.prefix, IgnoreBytes: p.igStr})
			}
			ctx, cancel := context.WithCancel(context.Background())
			st.cancel = cancel
			go func() {
				st.done <- x.db.Subscribe(ctx, func(kvs *KVList) error {
					for _, kv := range kvs.Kv {
						var m byte
						if len(kv.Meta) > 0 {
							m = kv.Meta[0]
						}
						st.got = append(st.got, kvObs{string(kv.Key), string(kv.Value), kv.Version, kv.ExpiresAt, m})
					}
					return nil
				}, ms)
			}()
			st.txns = []map[string]string{{"ab": "T0", "abc": "T0"}, {"ab\xffz": "T1", "cb": "T1", "zz": "T1"}, {"ab": "T2"}}
			st.names = []string{"T0", "T1", "T2"}
			x.state = st
		},
		threads: func(x *schedExec) []sched.Thread {
			st := x.state.(*c32State)
			var ths []sched.Thread
			for i := range st.txns[:x.j.Int("writers", 2)+1] {
				i := i
				if i == 2 {
					continue
				}
				ths = append(ths, sched.Thread{Name: st.names[i], Body: func() {
					x.s.Point("op")
					if x.db.opt.managedTxns {
						// a managed write batch: the keys of this writer at two different versions in one request
						wb := x.db.NewManagedWriteBatch()
						ks := make([]string, 0)
						for k := range st.txns[i] {
							ks = append(ks, k)
						}
						sort.Strings(ks)
						for n, k := range ks {
							e := NewEntry([]byte(k), []byte(st.txns[i][k])).WithMeta(byte(5 + i))
							if err := wb.SetEntryAt(e, uint64(10*(i+1)+n)); err != nil {
								panic(err)
							}
						}
						if err := wb.Flush(); err != nil {
							panic(err)
						}
						return
					}
					err := x.db.Update(func(txn *Txn) error {
						ks := make([]string, 0)
						for k := range st.txns[i] {
							ks = append(ks, k)
						}
						sort.Strings(ks)
						for _, k := range ks {
							e := NewEntry([]byte(k), []byte(st.txns[i][k])).WithMeta(byte(5 + i))
							if err := txn.SetEntry(e); err != nil {
								return err
							}
						}
						return nil
					})
					if err != nil {
						panic(err)
					}
				}})
			}
			return ths
		},
		teardown: func(x *schedExec) {
			st := x.state.(*c32State)
			st.cancel()
			<-st.done
			_ = x.db.Close()
		},
		check: func(x *schedExec) (string, string, string) {
			st := x.state.(*c32State)
			d := dumpAll(x.db)
			type want struct {
				key, val string
				ver      uint64
			}
			var ws []want
			for k, vs := range d {
				matched := false
				for _, p := range st.pats {
					if p.matches([]byte(k)) {
						matched = true
					}
				}
				if !matched {
					continue
				}
				for _, e := range vs {
					ws = append(ws, want{k, e.Val, e.Ver})
				}
			}
			sort.Slice(ws, func(i, j int) bool {
				if ws[i].ver != ws[j].ver {
					return ws[i].ver < ws[j].ver
				}
				return ws[i].key < ws[j].key
			})
			var got []kvObs
			for _, g := range st.got {
				if bytes.HasPrefix([]byte(g.Key), badgerPrefix) {
					continue // the property speaks about user keys
				}
				got = append(got, g)
			}
			// nothing for keys matching no pattern
			for _, g := range got {
				ok := false
				for _, p := range st.pats {
					if p.matches([]byte(g.Key)) {
						ok = true
					}
				}
				if !ok {
					return "", fmt.Sprintf("subscriber with patterns %v received key %q (value %q) which matches none of them", st.pats, g.Key, g.Val), "publisher-unmatched-key"
				}
			}
			if len(got) != len(ws) {
				return "", fmt.Sprintf("subscriber received %d KVs %v, expected %d %v", len(got), got, len(ws), ws), "publisher-count"
			}
			// commit-timestamp order; within one commit any order
			for i := 1; i < len(got); i++ {
				// (managed mode: versions are chosen by the callers, application order need not follow them)
				if got[i-1].Ver > got[i].Ver && !x.db.opt.managedTxns {
					return "", fmt.Sprintf("KVs not in commit order: %v", got), "publisher-order"
				}
			}
			sort.SliceStable(got, func(i, j int) bool {
				if got[i].Ver != got[j].Ver {
					return got[i].Ver < got[j].Ver
				}
				return got[i].Key < got[j].Key
			})
			for i := range ws {
				if got[i].Key != ws[i].key || got[i].Val != ws[i].val || got[i].Ver != ws[i].ver {
					return "", fmt.Sprintf("KV %d = %+v, expected %+v", i, got[i], ws[i]), "publisher-content"
				}
				if got[i].Meta < 5 {
					return "", fmt.Sprintf("KV %d user meta %d", i, got[i].Meta), "publisher-meta"
				}
			}
			return fmt.Sprint(len(got)), "", ""
		},
	})
}
