package badger

// C21 — merged iteration yields the sorted union with earliest-source precedence.

import (
	"bytes"
	"fmt"
	"sort"

	"github.com/dgraph-io/badger/v4/options"
	"github.com/dgraph-io/badger/v4/table"
	"github.com/dgraph-io/badger/v4/y"
)

// sliceIter is a y.Iterator over a sorted slice of internal keys, with table-iterator
// semantics: forward Seek = first >= key, reverse Seek = first <= key.
type sliceIter struct {
	keys    [][]byte
	tag     byte
	idx     int
	reverse bool
	closed  *int
}

func (s *sliceIter) Next() {
	if s.reverse {
		s.idx--
	} else {
		s.idx++
	}
}
func (s *sliceIter) Rewind() {
	if s.reverse {
		s.idx = len(s.keys) - 1
	} else {
		s.idx = 0
	}
}
func (s *sliceIter) Seek(key []byte) {
	if !s.reverse {
		s.idx = sort.Search(len(s.keys), func(i int) bool { return y.CompareKeys(s.keys[i], key) >= 0 })
		return
	}
	n := sort.Search(len(s.keys), func(i int) bool { return y.CompareKeys(s.keys[i], key) > 0 })
	s.idx = n - 1
}
func (s *sliceIter) Key() []byte { return s.keys[s.idx] }
func (s *sliceIter) Value() y.ValueStruct {
	return y.ValueStruct{Value: []byte{s.tag}, Meta: s.tag}
}
func (s *sliceIter) Valid() bool { return s.idx >= 0 && s.idx < len(s.keys) }
func (s *sliceIter) Close() error {
	if s.closed != nil {
		*s.closed++
	}
	return nil
}

type c21Entry struct {
	key []byte
	tag byte
}

func c21Expected(inputs [][][]byte, reverse bool) []c21Entry {
	best := map[string]byte{}
	var ks [][]byte
	for i, in := range inputs {
		for _, k := range in {
			if _, ok := best[string(k)]; !ok {
				best[string(k)] = byte(i)
				ks = append(ks, k)
			}
		}
	}
	sort.Slice(ks, func(i, j int) bool {
		if reverse {
			return y.CompareKeys(ks[i], ks[j]) > 0
		}
		return y.CompareKeys(ks[i], ks[j]) < 0
	})
	out := make([]c21Entry, len(ks))
	for i, k := range ks {
		out[i] = c21Entry{k, best[string(k)]}
	}
	return out
}

func c21Drain(it y.Iterator) []c21Entry {
	var out []c21Entry
	for n := 0; it.Valid(); it.Next() {
		out = append(out, c21Entry{append([]byte{}, it.Key()...), it.Value().Value[0]})
		if n++; n > 64 {
			break
		}
	}
	return out
}

func c21Eq(a, b []c21Entry) bool {
	if len(a) != len(b) {
		return false
	}
	for i := range a {
		if !bytes.Equal(a[i].key, b[i].key) || a[i].tag != b[i].tag {
			return false
		}
	}
	return true
}

func c21Fmt(es []c21Entry) string {
	s := ""
	for _, e := range es {
		s += fmt.Sprintf("%q@%d<-%d ", y.ParseKey(e.key), y.ParseTs(e.key), e.tag)
	}
	return s
}

func init() {
	registerEnum("c21merge", func(e *enumCtx) {
		ik := func(k string, ts uint64) []byte { return y.KeyWithTs([]byte(k), ts) }
		universe := [][]byte{ik("a", 3), ik("a", 1), ik("a\xff", 1), ik("b", 2), ik("c", 1)}
		sort.Slice(universe, func(i, j int) bool { return y.CompareKeys(universe[i], universe[j]) < 0 })
		targets := append([][]byte{}, universe...)
		targets = append(targets, ik("a", 5), ik("a", 2), ik("a", 0), ik("aa", 1), ik("b", 9), ik("b", 0), ik("d", 1), ik("\x00", 1))
		nin := e.j.Int("inputs", 3)
		nsub := 1 << len(universe)
		subset := func(m int) [][]byte {
			var out [][]byte
			for i, k := range universe {
				if m&(1<<i) != 0 {
					out = append(out, k)
				}
			}
			return out
		}
		// table-backed leaves: input i of a tuple can also be a production table iterator (one table
		// holding the subset) or a production ConcatIterator over the subset split into two tables —
		// what a level contributes to the merge the DB builds.  Tables are built once per (subset, tag).
		tblCache := map[[2]int][]*table.Table{}
		tablesOf := func(mask, tag, parts int) []*table.Table {
			ck := [2]int{mask<<8 | tag, parts}
			if ts, ok := tblCache[ck]; ok {
				return ts
			}
			keys := subset(mask)
			var groups [][][]byte
			if parts == 1 || len(keys) < 2 {
				groups = [][][]byte{keys}
			} else {
				groups = [][][]byte{keys[:len(keys)/2], keys[len(keys)/2:]}
			}
			var out []*table.Table
			for _, g := range groups {
				if len(g) == 0 {
					continue
				}
				to := table.Options{BlockSize: 64, BloomFalsePositive: 0.01, TableSize: 64 << 10, ChkMode: options.OnTableAndBlockRead}
				b := table.NewTableBuilder(to)
				for _, k := range g {
					b.Add(k, y.ValueStruct{Value: []byte{byte(tag)}, Meta: 0}, 1)
				}
				data := append([]byte{}, b.Finish()...)
				b.Close()
				c18TableID++
				t, err := table.OpenInMemoryTable(data, c18TableID, &to)
				if err != nil {
					panic(err)
				}
				out = append(out, t)
			}
			tblCache[ck] = out
			return out
		}
		leaf := func(mode string, mask, tag int, reverse bool) y.Iterator {
			opt := 0
			if reverse {
				opt = table.REVERSED
			}
			switch mode {
			case "table":
				ts := tablesOf(mask, tag, 1)
				if len(ts) == 0 {
					return &sliceIter{tag: byte(tag), reverse: reverse}
				}
				return ts[0].NewIterator(opt)
			case "concat":
				return table.NewConcatIterator(tablesOf(mask, tag, 2), opt)
			}
			return &sliceIter{keys: subset(mask), tag: byte(tag), reverse: reverse}
		}
		var rec func(masks []int)
		run := func(masks []int) {
			id := fmt.Sprint(masks)
			e.do("m"+id, func() (string, string) {
				inputs := make([][][]byte, len(masks))
				for i, m := range masks {
					inputs[i] = subset(m)
				}
				for _, rm := range []struct {
					reverse bool
					leaves  string
				}{{false, "slice"}, {true, "slice"}, {false, "table"}, {true, "table"}, {false, "concat"}, {true, "concat"}} {
					reverse := rm.reverse
					mk := func(nested bool) y.Iterator {
						its := make([]y.Iterator, len(inputs))
						for i := range inputs {
							its[i] = leaf(rm.leaves, masks[i], i, reverse)
						}
						if nested && len(its) >= 3 {
							// memtables merged first, then levels: a nested merge as the DB builds it
							inner := table.NewMergeIterator(its[1:], reverse)
							return table.NewMergeIterator([]y.Iterator{its[0], inner}, reverse)
						}
						return table.NewMergeIterator(its, reverse)
					}
					want := c21Expected(inputs, reverse)
					for _, nested := range []bool{false, true} {
						it := mk(nested)
						it.Rewind()
						if got := c21Drain(it); !c21Eq(got, want) {
							return "merge-rewind", fmt.Sprintf("leaves=%s reverse=%v nested=%v inputs=%v: got %s want %s", rm.leaves, reverse, nested, masks, c21Fmt(got), c21Fmt(want))
						}
						for _, tg := range targets {
							var w []c21Entry
							for _, x := range want {
								c := y.CompareKeys(x.key, tg)
								if (!reverse && c >= 0) || (reverse && c <= 0) {
									w = append(w, x)
								}
							}
							it.Seek(tg)
							if got := c21Drain(it); !c21Eq(got, w) {
								return "merge-seek", fmt.Sprintf("leaves=%s reverse=%v nested=%v inputs=%v seek %q@%d: got %s want %s", rm.leaves, reverse, nested, masks, y.ParseKey(tg), y.ParseTs(tg), c21Fmt(got), c21Fmt(w))
							}
						}
						// seek then rewind again (re-use)
						it.Rewind()
						if got := c21Drain(it); !c21Eq(got, want) {
							return "merge-rewind2", fmt.Sprintf("reverse=%v inputs=%v: second Rewind got %s want %s", reverse, masks, c21Fmt(got), c21Fmt(want))
						}
						_ = it.Close()
					}
				}
				return "", ""
			})
		}
		rec = func(masks []int) {
			if len(masks) >= 1 {
				run(masks)
			}
			if len(masks) == nin || e.stop() {
				return
			}
			for m := 0; m < nsub; m++ {
				rec(append(append([]int{}, masks...), m))
			}
		}
		rec(nil)
	})
}
