package badger

// C04 — a read-write transaction sees its own pending writes (E-enum on the real Txn).
//
// Every sequence of up to N pending writes (Set / SetEntry with user meta and a future or past
// expiry / Delete over 5 colliding keys) is applied inside a read-write transaction on top of each
// of 4 committed snapshots (empty; data spread over a deeper level, L0 and the memtable, with
// tombstones, value-log values and a version committed exactly at the read timestamp).  After the
// sequence: Get of every key and iterators in both directions x AllVersions x Prefix x SinceTs,
// from Rewind and from Seek to every key and probe, must equal the reference overlay (pending
// entry shadows the snapshot at version readTs; deletion and expiry hide the key).  Iterators
// created before a later write must not see it; a transaction begun before and one begun after
// never see pending writes.

import (
	"fmt"
	"sort"
	"strings"
	"time"
)

var c04Keys = []string{"a", "a\x00", "ab", "b", "\xff"}
var c04Probes = []string{"\x00", "aa", "ab\xff", "c"}

type c04Ver struct {
	ts    uint64
	val   string
	del   bool
	umeta byte
	exp   uint64
}

type c04Snap struct {
	db       *DB
	versions map[string][]c04Ver // newest first
	before   *Txn                // read-only transaction begun before every case
}

type c04Op struct {
	kind string // set del zero meta past
	key  string
}

func (o c04Op) String() string { return fmt.Sprintf("%s(%q)", o.kind, o.key) }

func c04BuildSnap(e *enumCtx, kind int) *c04Snap {
	o := smallOpts(freshDir(e.j))
	o.BaseTableSize = 256
	o.BaseLevelSize = 4 << 10
	o.TableSizeMultiplier = 1
	o.NumLevelZeroTables = 5
	o.NumLevelZeroTablesStall = 10
	o.BlockSize = 128
	o.ValueThreshold = 64
	db := mustOpen(o)
	s := &c04Snap{db: db, versions: map[string][]c04Ver{}}
	n := 0
	write := func(k string, del bool, big bool, umeta byte) {
		n++
		v := c04Ver{del: del, umeta: umeta}
		err := db.Update(func(txn *Txn) error {
			if del {
				return txn.Delete([]byte(k))
			}
			sz := 30
			if big {
				sz = 150
			}
			v.val = string(val(fmt.Sprintf("c%d:%x|", n, k), sz))
			return txn.SetEntry(NewEntry([]byte(k), []byte(v.val)).WithMeta(umeta))
		})
		if err != nil {
			panic(err)
		}
		v.ts = db.orc.nextTs() - 1
		s.versions[k] = append([]c04Ver{v}, s.versions[k]...)
	}
	deep := func() {
		lsmFlushNoBubble(db)
		if err := db.lc.doCompact(173, compactionPriority{level: 0, score: 1.73, t: db.lc.levelTargets()}); err != nil {
			panic(err)
		}
	}
	switch kind {
	case 0: // empty
	case 1:
		write("a", false, false, 1)
		deep()
		write("ab", false, true, 2)
		lsmFlushNoBubble(db)
		write("b", false, false, 3)
		write("b", true, false, 0)
		write("\xff", false, false, 4)
	case 2: // two versions of every key, all in the memtable
		for r := 0; r < 2; r++ {
			for i, k := range c04Keys {
				write(k, false, (i+r)%2 == 0, byte(10*r+i))
			}
		}
	case 3: // tombstone in L0 over a deeper value; value-log value; newest commit = read timestamp
		write("a", false, false, 1)
		write("a\x00", false, true, 2)
		write("b", false, false, 3)
		deep()
		write("a", true, false, 0)
		write("ab", false, false, 5)
		lsmFlushNoBubble(db)
		write("ab", true, false, 0)
		write("b", false, true, 6)
	}
	s.before = db.NewTransaction(false)
	return s
}

type c04Pending struct {
	val   string
	del   bool
	umeta byte
	exp   uint64
}

// expected iteration list under options.
func c04Expect(s *c04Snap, pending map[string]c04Pending, readTs uint64, reverse, allv bool, since uint64, now uint64) []c05Ent {
	keyset := map[string]bool{}
	for k := range s.versions {
		keyset[k] = true
	}
	for k := range pending {
		keyset[k] = true
	}
	var keys []string
	for k := range keyset {
		keys = append(keys, k)
	}
	sort.Strings(keys)
	var out []c05Ent
	for _, k := range keys {
		var vs []c04Ver
		if p, ok := pending[k]; ok {
			vs = append(vs, c04Ver{ts: readTs, val: p.val, del: p.del, umeta: p.umeta, exp: p.exp})
		}
		for _, v := range s.versions[k] {
			if v.ts > readTs {
				continue
			}
			if len(vs) > 0 && vs[0].ts == v.ts && v.ts == readTs {
				continue // the pending entry shadows a committed version with the same timestamp
			}
			vs = append(vs, v)
		}
		var vis []c04Ver
		for _, v := range vs {
			if since > 0 && v.ts <= since {
				continue
			}
			vis = append(vis, v)
		}
		hidden := func(v c04Ver) bool { return v.del || (v.exp != 0 && v.exp <= now) }
		if allv {
			for _, v := range vis {
				out = append(out, c05Ent{key: k, ts: v.ts, val: v.val, del: hidden(v), umeta: v.umeta, exp: v.exp})
			}
		} else if len(vis) > 0 && !hidden(vis[0]) {
			v := vis[0]
			out = append(out, c05Ent{key: k, ts: v.ts, val: v.val, umeta: v.umeta, exp: v.exp})
		}
	}
	if reverse {
		for a, b := 0, len(out)-1; a < b; a, b = a+1, b-1 {
			out[a], out[b] = out[b], out[a]
		}
	}
	return out
}

func c04WalkCheck(it *Iterator, o c05Opt, exp []c05Ent, what string) string {
	i := 0
	for ; it.Valid(); it.Next() {
		item := it.Item()
		if i >= len(exp) {
			return fmt.Sprintf("%s: extra item %q@%d after the %d expected", what, item.Key(), item.Version(), len(exp))
		}
		w := exp[i]
		if string(item.Key()) != w.key || item.Version() != w.ts {
			return fmt.Sprintf("%s: item %d is %q@%d, want %q@%d", what, i, item.Key(), item.Version(), w.key, w.ts)
		}
		if item.IsDeletedOrExpired() != w.del {
			return fmt.Sprintf("%s: item %q@%d deleted/expired=%v, want %v", what, item.Key(), item.Version(), item.IsDeletedOrExpired(), w.del)
		}
		if item.ExpiresAt() != w.exp {
			return fmt.Sprintf("%s: item %q@%d ExpiresAt %d, want %d", what, item.Key(), item.Version(), item.ExpiresAt(), w.exp)
		}
		if !w.del {
			v, err := item.ValueCopy(nil)
			if err != nil || string(v) != w.val {
				return fmt.Sprintf("%s: item %q@%d value %q (err %v), want %q", what, item.Key(), item.Version(), shortVal(string(v)), err, shortVal(w.val))
			}
			if item.UserMeta() != w.umeta {
				return fmt.Sprintf("%s: item %q@%d user meta %d, want %d", what, item.Key(), item.Version(), item.UserMeta(), w.umeta)
			}
		}
		i++
	}
	if i != len(exp) {
		return fmt.Sprintf("%s: iteration ended after %d of %d expected items (next expected %q@%d)", what, i, len(exp), exp[i].key, exp[i].ts)
	}
	return ""
}

func c04ReadRound(s *c04Snap, txn *Txn, pending map[string]c04Pending, now uint64, count func(string, int64)) string {
	readTs := txn.ReadTs()
	// Get
	base := c04Expect(s, pending, readTs, false, false, 0, now)
	vis := map[string]c05Ent{}
	for _, en := range base {
		vis[en.key] = en
	}
	for _, k := range c04Keys {
		item, err := txn.Get([]byte(k))
		w, ok := vis[k]
		if !ok {
			if err != ErrKeyNotFound {
				return fmt.Sprintf("Get(%q): want ErrKeyNotFound, got item=%v err=%v", k, item != nil, err)
			}
			continue
		}
		if err != nil {
			return fmt.Sprintf("Get(%q): %v, want value %q", k, err, shortVal(w.val))
		}
		v1, err1 := item.ValueCopy(nil)
		var v2 []byte
		err2 := item.Value(func(b []byte) error { v2 = append([]byte{}, b...); return nil })
		if err1 != nil || err2 != nil || string(v1) != w.val || string(v2) != w.val {
			return fmt.Sprintf("Get(%q) value %q / %q (errs %v %v), want %q", k, shortVal(string(v1)), shortVal(string(v2)), err1, err2, shortVal(w.val))
		}
		if item.UserMeta() != w.umeta || item.ExpiresAt() != w.exp || item.Version() != w.ts {
			return fmt.Sprintf("Get(%q) meta %d expiry %d version %d, want %d %d %d", k, item.UserMeta(), item.ExpiresAt(), item.Version(), w.umeta, w.exp, w.ts)
		}
	}
	sinces := []uint64{0}
	if readTs > 0 {
		sinces = append(sinces, readTs)
		if readTs > 1 {
			sinces = append(sinces, readTs-1)
		}
	}
	for _, reverse := range []bool{false, true} {
		for _, allv := range []bool{false, true} {
			for _, since := range sinces {
				all := c04Expect(s, pending, readTs, reverse, allv, since, now)
				for pi, prefix := range []string{"", "a", "ab"} {
					o := c05Opt{reverse: reverse, allv: allv, prefix: prefix, readTs: readTs, since: since}
					io := IteratorOptions{Reverse: reverse, AllVersions: allv, Prefix: []byte(prefix), SinceTs: since, PrefetchValues: pi%2 == 0, PrefetchSize: 2}
					it := txn.NewIterator(io)
					it.Rewind()
					if s := c04WalkCheck(it, o, c05From(all, o, "", true), fmt.Sprintf("%v Rewind", o)); s != "" {
						it.Close()
						return s
					}
					for _, t := range append(append([]string{}, c04Keys...), c04Probes...) {
						if !strings.HasPrefix(t, prefix) {
							continue
						}
						it.Seek([]byte(t))
						if s := c04WalkCheck(it, o, c05From(all, o, t, false), fmt.Sprintf("%v Seek(%q)", o, t)); s != "" {
							it.Close()
							return s
						}
						count("walks", 1)
					}
					it.Close()
				}
			}
		}
	}
	return ""
}

func init() {
	registerEnum("c04ryow", func(e *enumCtx) {
		maxLen := e.j.Int("len", 3)
		var ops []c04Op
		for _, kind := range []string{"set", "del", "zero", "meta", "past"} {
			for _, k := range c04Keys {
				ops = append(ops, c04Op{kind, k})
			}
		}
		snaps := map[int]*c04Snap{}
		defer func() {
			for _, s := range snaps {
				s.before.Discard()
				dir := s.db.opt.Dir
				_ = s.db.Close()
				removeAll(dir)
			}
		}()
		getSnap := func(kind int) *c04Snap {
			if s, ok := snaps[kind]; ok {
				return s
			}
			s := c04BuildSnap(e, kind)
			snaps[kind] = s
			return s
		}
		for kind := 0; kind < 4; kind++ {
			kind := kind
			run := func(seq []c04Op) {
				e.do(fmt.Sprintf("snap%d/%v", kind, seq), func() (string, string) {
					s := getSnap(kind)
					now := uint64(time.Now().Unix())
					txn := s.db.NewTransaction(true)
					defer txn.Discard()
					pending := map[string]c04Pending{}
					type oldIt struct {
						it      *Iterator
						pending map[string]c04Pending
					}
					var olds []oldIt
					defer func() {
						for _, o := range olds {
							o.it.Close()
						}
					}()
					for i, op := range seq {
						// an iterator created now must not see the writes that follow
						cp := map[string]c04Pending{}
						for k, v := range pending {
							cp[k] = v
						}
						olds = append(olds, oldIt{txn.NewIterator(IteratorOptions{Reverse: i%2 == 1, PrefetchValues: false}), cp})
						p := c04Pending{val: fmt.Sprintf("p%d:%x", i, op.key)}
						var err error
						switch op.kind {
						case "set":
							err = txn.Set([]byte(op.key), []byte(p.val))
						case "zero": // a Set with an empty value is a live entry, not a delete
							p.val = ""
							err = txn.Set([]byte(op.key), nil)
						case "del":
							p = c04Pending{del: true}
							err = txn.Delete([]byte(op.key))
						case "meta":
							p.umeta = byte(0x80 + i)
							p.exp = now + 3600
							en := NewEntry([]byte(op.key), []byte(p.val)).WithMeta(p.umeta)
							en.ExpiresAt = p.exp
							err = txn.SetEntry(en)
						case "past":
							p.exp = now - 10
							en := NewEntry([]byte(op.key), []byte(p.val))
							en.ExpiresAt = p.exp
							err = txn.SetEntry(en)
						}
						if err != nil {
							return "ryow-write-error", fmt.Sprintf("%v: %v", op, err)
						}
						pending[op.key] = p
					}
					if d := c04ReadRound(s, txn, pending, now, e.r.AddExtra); d != "" {
						return "ryow-mismatch", fmt.Sprintf("snapshot %d, pending writes %v: %s", kind, seq, d)
					}
					for i, o := range olds {
						all := c04Expect(s, o.pending, txn.ReadTs(), i%2 == 1, false, 0, now)
						o.it.Rewind()
						opt := c05Opt{reverse: i%2 == 1}
						if d := c04WalkCheck(o.it, opt, all, fmt.Sprintf("iterator created before write #%d (%v)", i, seq[i])); d != "" {
							return "ryow-old-iterator", fmt.Sprintf("snapshot %d, pending writes %v: %s", kind, seq, d)
						}
					}
					// isolation: other transactions never see pending writes
					after := s.db.NewTransaction(false)
					defer after.Discard()
					for name, other := range map[string]*Txn{"begun before": s.before, "begun after": after} {
						if d := c04ReadRoundLight(s, other, now); d != "" {
							return "ryow-leak", fmt.Sprintf("snapshot %d, pending writes %v: transaction %s: %s", kind, seq, name, d)
						}
					}
					return "", ""
				})
			}
			// breadth-first by length so that the shortest counterexample comes first
			for l := 1; l <= maxLen; l++ {
				ml := maxLen
				maxLen = l
				var recL func(seq []c04Op)
				recL = func(seq []c04Op) {
					if e.stop() {
						return
					}
					if len(seq) == l {
						run(seq)
						return
					}
					for _, op := range ops {
						recL(append(append([]c04Op{}, seq...), op))
					}
				}
				recL(nil)
				maxLen = ml
			}
		}
	})
}

// c04ReadRoundLight: Get and a forward/reverse iteration without pending writes.
func c04ReadRoundLight(s *c04Snap, txn *Txn, now uint64) string {
	readTs := txn.ReadTs()
	for _, reverse := range []bool{false, true} {
		all := c04Expect(s, nil, readTs, reverse, false, 0, now)
		it := txn.NewIterator(IteratorOptions{Reverse: reverse, PrefetchValues: true, PrefetchSize: 10})
		it.Rewind()
		d := c04WalkCheck(it, c05Opt{reverse: reverse}, all, "iteration")
		it.Close()
		if d != "" {
			return d
		}
		if !reverse {
			vis := map[string]c05Ent{}
			for _, en := range all {
				vis[en.key] = en
			}
			for _, k := range c04Keys {
				got := getStr(txn, k)
				want := "<nil>"
				if w, ok := vis[k]; ok {
					want = w.val
				}
				if got != want {
					return fmt.Sprintf("Get(%q) = %q, want %q", k, shortVal(got), shortVal(want))
				}
			}
		}
	}
	return ""
}
