package badger

// C35 — directory locking excludes a second writer (E-enum with a helper process).
//
// Handles A and B live in this process, handle C in a helper process (the same test binary,
// driven over a pipe).  Every sequence of OpenRW / OpenRO / Close over the three handles up to a
// length, under four directory layouts (shared Dir=ValueDir; separate; crossed; partially
// overlapping), is executed and every Open result is compared with a per-directory
// reader-writer-lock model.  A failed open must leave no lock behind and must not disturb the
// holder.

import (
	"bufio"
	"fmt"
	"io"
	"os"
	"os/exec"
	"path/filepath"
	"strings"
)

type c35Helper struct {
	cmd *exec.Cmd
	in  io.WriteCloser
	out *bufio.Reader
}

func c35StartHelper() (*c35Helper, error) {
	cmd := exec.Command(os.Args[0], "-test.run", "^TestVerif$", "-test.timeout", "0")
	cmd.Env = append(os.Environ(), "VERIF_LOCK_HELPER=1", "VERIF_JOB=")
	in, err := cmd.StdinPipe()
	if err != nil {
		return nil, err
	}
	out, err := cmd.StdoutPipe()
	if err != nil {
		return nil, err
	}
	cmd.Stderr = os.Stderr
	if err := cmd.Start(); err != nil {
		return nil, err
	}
	return &c35Helper{cmd: cmd, in: in, out: bufio.NewReader(out)}, nil
}

func (h *c35Helper) call(line string) (string, error) {
	if _, err := fmt.Fprintln(h.in, line); err != nil {
		return "", err
	}
	for {
		resp, err := h.out.ReadString('\n')
		if err != nil {
			return "", err
		}
		resp = strings.TrimSpace(resp)
		if strings.HasPrefix(resp, "RESP ") {
			return strings.TrimPrefix(resp, "RESP "), nil
		}
	}
}

func (h *c35Helper) stop() {
	_ = h.in.Close()
	_ = h.cmd.Wait()
}

func c35Opts(dir, vdir string, ro bool) Options {
	o := smallOpts(dir)
	o.ValueDir = vdir
	o.ReadOnly = ro
	// directories live for the whole enumeration and every read-write Close may add an L0 table
	o.NumLevelZeroTables, o.NumLevelZeroTablesStall = 1<<20, 1<<21
	return o
}

// lockHelperMain is the helper process: "rw dir vdir" / "ro dir vdir" / "close" on stdin.
func lockHelperMain() {
	var db *DB
	sc := bufio.NewScanner(os.Stdin)
	for sc.Scan() {
		f := strings.Fields(sc.Text())
		if len(f) == 0 {
			continue
		}
		switch f[0] {
		case "rw", "ro":
			d, err := Open(c35Opts(f[1], f[2], f[0] == "ro"))
			if err != nil {
				fmt.Println("RESP err " + strings.ReplaceAll(err.Error(), "\n", " "))
				continue
			}
			db = d
			fmt.Println("RESP ok")
		case "close":
			err := db.Close()
			db = nil
			if err != nil {
				fmt.Println("RESP err " + err.Error())
			} else {
				fmt.Println("RESP ok")
			}
		}
	}
	if db != nil {
		_ = db.Close()
	}
}

type c35Handle struct {
	name      string
	dir, vdir string
	db        *DB  // in-process handles
	open      bool // helper handle
	ro        bool
}

func init() {
	registerEnum("c35lock", func(e *enumCtx) {
		maxLen := e.j.Int("len", 4)
		root := filepath.Join(e.j.Scratch, "c35")
		var helper *c35Helper
		defer func() {
			if helper != nil {
				helper.stop()
			}
		}()
		dirs := map[string]string{}
		for _, n := range []string{"X", "Y", "Z"} {
			dirs[n] = filepath.Join(root, n)
		}
		layouts := map[string][3][2]string{
			"shared":   {{"X", "X"}, {"X", "X"}, {"X", "X"}},
			"separate": {{"X", "Y"}, {"X", "Y"}, {"X", "Y"}},
			"crossed":  {{"X", "Y"}, {"Y", "X"}, {"X", "Y"}},
			"overlap":  {{"X", "Y"}, {"Z", "Y"}, {"X", "X"}},
		}
		initialized := map[string]bool{}
		ensureInit := func(d, v string) string {
			if initialized[d+"|"+v] {
				return ""
			}
			db, err := Open(c35Opts(d, v, false))
			if err != nil {
				return err.Error()
			}
			if err := db.Close(); err != nil {
				return err.Error()
			}
			initialized[d+"|"+v] = true
			return ""
		}
		for _, lname := range []string{"shared", "separate", "crossed", "overlap"} {
			lay := layouts[lname]
			var rec func(seq []string, state [3]int)
			run := func(seq []string) {
				e.do(fmt.Sprintf("%s/%s", lname, strings.Join(seq, ",")), func() (string, string) {
					if helper == nil {
						var err error
						if helper, err = c35StartHelper(); err != nil {
							return "c35-helper", err.Error()
						}
					}
					hs := [3]*c35Handle{}
					for i, n := range []string{"A", "B", "C"} {
						hs[i] = &c35Handle{name: n, dir: dirs[lay[i][0]], vdir: dirs[lay[i][1]]}
						if s := ensureInit(hs[i].dir, hs[i].vdir); s != "" {
							return "c35-init", s
						}
					}
					// model: per directory, the set of holders
					writers := map[string]string{}
					readers := map[string]map[string]bool{}
					closeAll := func() {
						for _, h := range hs {
							if h.db != nil {
								_ = h.db.Close()
								h.db = nil
							}
							if h.open {
								_, _ = helper.call("close")
								h.open = false
							}
						}
					}
					defer closeAll()
					for step, op := range seq {
						h := hs[op[0]-'A']
						kind := op[1:]
						ds := []string{h.dir}
						if h.vdir != h.dir {
							ds = append(ds, h.vdir)
						}
						switch kind {
						case "rw", "ro":
							wantOK := true
							for _, d := range ds {
								if writers[d] != "" || (kind == "rw" && len(readers[d]) > 0) {
									wantOK = false
								}
							}
							var err error
							if h.name == "C" {
								var resp string
								resp, err = helper.call(fmt.Sprintf("%s %s %s", kind, h.dir, h.vdir))
								if err == nil && resp != "ok" {
									err = fmt.Errorf("%s", resp)
								}
								if err == nil {
									h.open = true
								}
							} else {
								h.db, err = Open(c35Opts(h.dir, h.vdir, kind == "ro"))
							}
							if (err == nil) != wantOK {
								return "lock-model", fmt.Sprintf("layout %s, step %d of %v: %s %s(Dir=%s, ValueDir=%s) returned %v, the lock model says success=%v (writers %v readers %v)",
									lname, step, seq, h.name, kind, filepath.Base(h.dir), filepath.Base(h.vdir), err, wantOK, writers, readers)
							}
							if err != nil {
								if !strings.Contains(err.Error(), "Cannot acquire directory lock") {
									return "lock-error-kind", fmt.Sprintf("layout %s, step %d of %v: open failed with %v (expected the directory-lock error)", lname, step, seq, err)
								}
								// the holder(s) must be undisturbed: an in-process writer can still write
								for _, o := range hs {
									if o.db != nil && !o.ro {
										if werr := o.db.Update(func(txn *Txn) error { return txn.Set([]byte("k"), []byte("v")) }); werr != nil {
											return "lock-holder-disturbed", fmt.Sprintf("after a failed open by %s, writer %s cannot write: %v", h.name, o.name, werr)
										}
									}
								}
								continue
							}
							h.ro = kind == "ro"
							for _, d := range ds {
								if kind == "rw" {
									writers[d] = h.name
								} else {
									if readers[d] == nil {
										readers[d] = map[string]bool{}
									}
									readers[d][h.name] = true
								}
							}
						case "close":
							var err error
							if h.name == "C" {
								var resp string
								resp, err = helper.call("close")
								if err == nil && resp != "ok" {
									err = fmt.Errorf("%s", resp)
								}
								h.open = false
							} else {
								err = h.db.Close()
								h.db = nil
							}
							if err != nil {
								return "lock-close", fmt.Sprintf("layout %s, step %d of %v: Close: %v", lname, step, seq, err)
							}
							for _, d := range ds {
								if writers[d] == h.name {
									delete(writers, d)
								}
								delete(readers[d], h.name)
							}
						}
					}
					return "", ""
				})
			}
			// model state per handle: 0 closed, 1 open read-write, 2 open read-only; an open succeeds
			// iff no directory of the handle has a writer and (for read-write) no reader
			canOpen := func(state [3]int, i int, rw bool) bool {
				mine := map[string]bool{lay[i][0]: true, lay[i][1]: true}
				for j, st := range state {
					if st == 0 {
						continue
					}
					if !mine[lay[j][0]] && !mine[lay[j][1]] {
						continue
					}
					if st == 1 || rw {
						return false
					}
				}
				return true
			}
			rec = func(seq []string, state [3]int) {
				if e.stop() {
					return
				}
				if len(seq) > 0 {
					run(seq)
				}
				if len(seq) == maxLen {
					return
				}
				for i, n := range []string{"A", "B", "C"} {
					if state[i] == 0 {
						for ki, k := range []string{"rw", "ro"} {
							ns := state
							if canOpen(state, i, k == "rw") {
								ns[i] = ki + 1
							}
							rec(append(append([]string{}, seq...), n+k), ns)
						}
					} else {
						ns := state
						ns[i] = 0
						rec(append(append([]string{}, seq...), n+"close"), ns)
					}
				}
			}
			rec(nil, [3]int{})
		}
	})
}

// c35pid (E-enum): the advisory pid file ("LOCK", documented as not part of the locking
// mechanism) disappears while a read-write handle is open — an environment deviation.  Close may
// report the failed removal, but it must still give the directory lock up: the next Open (same
// process or the helper process, read-write or read-only) succeeds.  The first *DB stays reachable
// so that no finalizer closes a leaked descriptor behind the harness's back.
var c35Keep []*DB

func init() {
	registerEnum("c35pid", func(e *enumCtx) {
		root := filepath.Join(e.j.Scratch, "c35pid")
		var helper *c35Helper
		defer func() {
			if helper != nil {
				helper.stop()
			}
		}()
		n := 0
		for _, layout := range []string{"shared", "separate"} {
			for _, removed := range []string{"dir", "valuedir", "both", "none"} {
				if layout == "shared" && (removed == "valuedir" || removed == "both") {
					continue
				}
				for _, opener := range []string{"B", "C"} {
					for _, kind := range []string{"rw", "ro"} {
						layout, removed, opener, kind := layout, removed, opener, kind
						e.do(fmt.Sprintf("%s/rm-%s/%s%s", layout, removed, opener, kind), func() (string, string) {
							if helper == nil {
								var err error
								if helper, err = c35StartHelper(); err != nil {
									return "c35-helper", err.Error()
								}
							}
							n++
							dir := filepath.Join(root, fmt.Sprint(n), "X")
							vdir := dir
							if layout == "separate" {
								vdir = filepath.Join(root, fmt.Sprint(n), "Y")
							}
							defer os.RemoveAll(filepath.Join(root, fmt.Sprint(n)))
							a, err := Open(c35Opts(dir, vdir, false))
							if err != nil {
								return "c35-init", err.Error()
							}
							c35Keep = append(c35Keep, a)
							if err := a.Update(func(txn *Txn) error { return txn.Set([]byte("k"), []byte("v")) }); err != nil {
								return "c35-init", err.Error()
							}
							if removed == "dir" || removed == "both" {
								if err := os.Remove(filepath.Join(dir, lockFile)); err != nil {
									return "c35-init", err.Error()
								}
							}
							if removed == "valuedir" || removed == "both" {
								if err := os.Remove(filepath.Join(vdir, lockFile)); err != nil {
									return "c35-init", err.Error()
								}
							}
							closeErr := a.Close()
							if removed == "none" && closeErr != nil {
								return "lock-close", "Close: " + closeErr.Error()
							}
							if opener == "C" {
								resp, err := helper.call(fmt.Sprintf("%s %s %s", kind, dir, vdir))
								if err != nil {
									return "c35-helper", err.Error()
								}
								if resp != "ok" {
									return "lock-not-released", fmt.Sprintf("pid file of %s removed while the database was open; Close returned %v; a %s Open by another process then fails: %s", removed, closeErr, kind, resp)
								}
								_, _ = helper.call("close")
								return "", ""
							}
							b, err := Open(c35Opts(dir, vdir, kind == "ro"))
							if err != nil {
								return "lock-not-released", fmt.Sprintf("pid file of %s removed while the database was open; Close returned %v; a %s Open in the same process then fails: %v", removed, closeErr, kind, err)
							}
							got := ""
							_ = b.View(func(txn *Txn) error {
								if it, err := txn.Get([]byte("k")); err == nil {
									v, _ := it.ValueCopy(nil)
									got = string(v)
								}
								return nil
							})
							_ = b.Close()
							if got != "v" {
								return "lost-after-close", fmt.Sprintf("key written before Close reads %q after re-open", got)
							}
							return "", ""
						})
					}
				}
			}
		}
	})
}
