package badger

// C25 — a Stream run emits one consistent snapshot, each key exactly once.
//
// c25seq (E-enum): layouts x NumGo x Prefix x ChooseKey x SinceTs x NumVersionsToKeep; the
// delivered KV lists are compared with what one read snapshot shows; Send must never run
// concurrently with itself.
// c25sched (E-sched): the stream's producer goroutines are scheduled threads racing a committer
// that moves an amount between two keys that lie in different key ranges: the delivered pair must
// be one of the two consistent states.

import (
	"bytes"
	"context"
	"fmt"
	"sort"
	"strings"
	"sync/atomic"

	"github.com/dgraph-io/badger/v4/pb"
	"github.com/dgraph-io/badger/v4/vshim/sched"
	"github.com/dgraph-io/ristretto/v2/z"
)

type c25Collector struct {
	inSend    atomic.Int32
	overlap   atomic.Int32
	kvs       []*pb.KV
	sendCalls int
}

func (c *c25Collector) send(buf *z.Buffer) error {
	if c.inSend.Add(1) != 1 {
		c.overlap.Add(1)
	}
	defer c.inSend.Add(-1)
	c.sendCalls++
	list, err := BufferToKVList(buf)
	if err != nil {
		return err
	}
	for _, kv := range list.Kv {
		cp := &pb.KV{Key: append([]byte{}, kv.Key...), Value: append([]byte{}, kv.Value...), UserMeta: append([]byte{}, kv.UserMeta...),
			Version: kv.Version, ExpiresAt: kv.ExpiresAt, StreamId: kv.StreamId, StreamDone: kv.StreamDone}
		c.kvs = append(c.kvs, cp)
	}
	return nil
}

// c25Expect: per key, the list the default ToList produces from one snapshot at readTs.
func c25Expect(versions map[string][]c04Ver, readTs, since uint64, nvk int, prefix string, choose func(string) bool) map[string][]c04Ver {
	out := map[string][]c04Ver{}
	for k, vs := range versions {
		if !strings.HasPrefix(k, prefix) {
			continue
		}
		var vis []c04Ver
		for _, v := range vs { // newest first
			if v.ts > readTs || (since > 0 && v.ts <= since) {
				continue
			}
			vis = append(vis, v)
		}
		if len(vis) == 0 {
			continue
		}
		if choose != nil && !choose(k) {
			continue
		}
		var list []c04Ver
		for _, v := range vis {
			if v.del {
				break
			}
			list = append(list, v)
			if nvk == 1 {
				break
			}
		}
		if len(list) > 0 {
			out[k] = list
		}
	}
	return out
}

func c25Compare(got []*pb.KV, want map[string][]c04Ver) string {
	byKey := map[string][]*pb.KV{}
	var order []string
	for _, kv := range got {
		if kv.StreamDone {
			continue
		}
		k := string(kv.Key)
		if _, ok := byKey[k]; !ok {
			order = append(order, k)
		} else if last := order[len(order)-1]; last != k {
			return fmt.Sprintf("key %q delivered in two separate places of the stream (exactly-once violated)", k)
		}
		byKey[k] = append(byKey[k], kv)
	}
	for k, w := range want {
		g := byKey[k]
		if len(g) != len(w) {
			return fmt.Sprintf("key %q: %d KVs delivered, the snapshot shows %d versions to deliver (got versions %v)", k, len(g), len(w), c25Vers(g))
		}
		for i := range w {
			um := byte(0)
			if len(g[i].UserMeta) > 0 {
				um = g[i].UserMeta[0]
			}
			if g[i].Version != w[i].ts || string(g[i].Value) != w[i].val || um != w[i].umeta || g[i].ExpiresAt != w[i].exp {
				return fmt.Sprintf("key %q item %d: delivered version %d value %q meta %d, snapshot has version %d value %q meta %d", k, i, g[i].Version, shortVal(string(g[i].Value)), um, w[i].ts, shortVal(w[i].val), w[i].umeta)
			}
		}
	}
	for k, g := range byKey {
		if _, ok := want[k]; !ok {
			return fmt.Sprintf("key %q delivered (versions %v) but it is not part of the chosen snapshot", k, c25Vers(g))
		}
	}
	return ""
}

func c25Vers(g []*pb.KV) []uint64 {
	var v []uint64
	for _, kv := range g {
		v = append(v, kv.Version)
	}
	return v
}

func init() {
	registerEnum("c25seq", func(e *enumCtx) {
		e.journal = true
		var keys []string
		for i := 0; i < 12; i++ {
			keys = append(keys, fmt.Sprintf("k%02d", i))
		}
		keys = append(keys, "j", "k0\xff", "k1")
		sort.Strings(keys)
		for layout := 0; layout < 4; layout++ {
			for _, nvk := range []int{1, 100} {
				for _, numGo := range []int{1, 2, 3} {
					for _, prefix := range []string{"", "k0", "k1"} {
						for _, choose := range []string{"all", "even", "odd"} {
							for _, sm := range []int{0, 1, 2} {
								// sm 2: as sm 0, with Stream.MaxSize so small that every batch handed to Send is cut short
								sinceMid, smallBatches := sm == 1, sm == 2
								layout, nvk, numGo, prefix, choose := layout, nvk, numGo, prefix, choose
								id := fmt.Sprintf("layout%d/nvk%d/go%d/p%q/%s/since%v", layout, nvk, numGo, prefix, choose, sinceMid)
								if smallBatches {
									id += "/maxsize200"
								} else if e.j.Bool("maxsize_only", false) {
									continue
								}
								e.do(id, func() (string, string) {
									dir := freshDir(e.j)
									defer removeAll(dir)
									o := smallOpts(dir)
									o.BaseTableSize = 400
									o.TableSizeMultiplier = 1
									o.BaseLevelSize = 2 << 10
									o.BlockSize = 128
									o.NumLevelZeroTables = 5
									o.NumLevelZeroTablesStall = 10
									o.NumVersionsToKeep = nvk
									db := mustOpen(o)
									defer db.Close()
									versions := map[string][]c04Ver{}
									n := 0
									write := func(k string, del bool) {
										n++
										v := c04Ver{del: del, umeta: byte(n)}
										err := db.Update(func(txn *Txn) error {
											if del {
												v.umeta = 0
												return txn.Delete([]byte(k))
											}
											v.val = string(val(fmt.Sprintf("%s#%d|", k, n), 20+60*(n%2)))
											return txn.SetEntry(NewEntry([]byte(k), []byte(v.val)).WithMeta(v.umeta))
										})
										if err != nil {
											panic(err)
										}
										v.ts = db.orc.nextTs() - 1
										versions[k] = append([]c04Ver{v}, versions[k]...)
									}
									round := func(r int) {
										for i, k := range keys {
											switch {
											case r == 0:
												write(k, false)
											case r == 1 && i%3 == 0:
												write(k, false)
											case r == 1 && i%5 == 1:
												write(k, true)
											case r == 2 && i%4 == 1:
												write(k, false)
											}
										}
									}
									deep := func() {
										lsmFlushNoBubble(db)
										if err := db.Flatten(1); err != nil {
											panic(err)
										}
									}
									switch layout {
									case 0: // everything in the memtable
										round(0)
										round(1)
										round(2)
									case 1: // everything in the last level (several small tables)
										round(0)
										round(1)
										round(2)
										deep()
									case 2, 3: // last level + L0 + memtable
										round(0)
										deep()
										round(1)
										lsmFlushNoBubble(db)
										round(2)
										if layout == 3 {
											// plus user keys whose bytes EQUAL the range split points (a split point
											// is an internal key: user key + 8-byte version suffix)
											for _, r := range db.Ranges(nil, numGo) {
												if len(r.right) > 0 {
													write(string(r.right), false)
												}
											}
										}
									}
									readTs := db.orc.nextTs() - 1
									var since uint64
									if sinceMid {
										since = readTs / 2
									}
									var chooseFn func(string) bool
									st := db.NewStream()
									st.NumGo = numGo
									st.Prefix = []byte(prefix)
									st.SinceTs = since
									if smallBatches {
										st.MaxSize = 200
									}
									if choose != "all" {
										parity := byte(0)
										if choose == "odd" {
											parity = 1
										}
										chooseFn = func(k string) bool { return k[len(k)-1]%2 == parity }
										st.ChooseKey = func(item *Item) bool { return chooseFn(string(item.Key())) }
									}
									col := &c25Collector{}
									st.Send = col.send
									if err := st.Orchestrate(context.Background()); err != nil {
										return "stream-error", err.Error()
									}
									if col.overlap.Load() > 0 {
										return "stream-concurrent-send", fmt.Sprintf("Send was entered %d times while another Send was running", col.overlap.Load())
									}
									want := c25Expect(versions, readTs, since, nvk, prefix, chooseFn)
									if s := c25Compare(col.kvs, want); s != "" {
										return "stream-content", fmt.Sprintf("%d ranges: %s", len(db.Ranges([]byte(prefix), numGo)), s)
									}
									e.r.AddExtra("ranges", int64(len(db.Ranges([]byte(prefix), numGo))))
									e.r.AddExtra("kvs", int64(len(col.kvs)))
									return "", ""
								})
							}
						}
					}
				}
			}
		}
	})

	type schedState struct {
		col  *c25Collector
		err  error
		errs []string
	}
	registerSched(&schedScenario{
		name:   "c25sched",
		points: []string{"op", "stream.begin", "stream.txn", "stream.range"},
		setup: func(x *schedExec) {
			o := smallOpts(x.dir)
			o.BlockSize = 128
			o.NumLevelZeroTables = 1 // two L0 tables are enough for the picker to compact L0
			x.db = mustOpen(o)
			// four accounts, one block each, flushed: the key ranges split between them
			for _, k := range []string{"acct1", "acct2", "acct3", "acct4"} {
				if err := x.db.Update(func(txn *Txn) error { return txn.Set([]byte(k), val("100|", 100)) }); err != nil {
					panic(err)
				}
			}
			lsmFlush(x.db)
			x.state = &schedState{col: &c25Collector{}}
		},
		threads: func(x *schedExec) []sched.Thread {
			st := x.state.(*schedState)
			return []sched.Thread{
				{Name: "Stream", Body: func() {
					x.s.Point("op")
					s := x.db.NewStream()
					s.NumGo = 2
					s.Send = st.col.send
					st.err = s.Orchestrate(context.Background())
				}},
				{Name: "Transfer", Body: func() {
					x.s.Point("op")
					err := x.db.Update(func(txn *Txn) error {
						if err := txn.Set([]byte("acct1"), val("090|", 100)); err != nil {
							return err
						}
						return txn.Set([]byte("acct4"), val("110|", 100))
					})
					if err != nil {
						st.errs = append(st.errs, err.Error())
					}
					if x.j.Int("case", 0) == 1 {
						// a finished read lets the read watermark advance to the transfer (unless the
						// stream's snapshot holds it), then the old versions are flushed and compacted
						// away with NumVersionsToKeep 1 while the stream may still be running
						_ = x.db.View(func(txn *Txn) error { return nil })
						x.s.Point("op")
						x.flushBlocking()
						x.s.Point("op")
						runOnceAs(x.db, 0)
					}
				}},
			}
		},
		check: func(x *schedExec) (string, string, string) {
			st := x.state.(*schedState)
			if st.err != nil {
				return "", "Orchestrate: " + st.err.Error(), "stream-error"
			}
			if len(st.errs) > 0 {
				return "", strings.Join(st.errs, ";"), "stream-commit-error"
			}
			if st.col.overlap.Load() > 0 {
				return "", "Send called concurrently", "stream-concurrent-send"
			}
			got := map[string]string{}
			cnt := map[string]int{}
			for _, kv := range st.col.kvs {
				if kv.StreamDone {
					continue
				}
				cnt[string(kv.Key)]++
				got[string(kv.Key)] = string(bytes.SplitN(kv.Value, []byte("|"), 2)[0])
			}
			for _, k := range []string{"acct1", "acct2", "acct3", "acct4"} {
				if cnt[k] != 1 {
					return "", fmt.Sprintf("key %s delivered %d times (delivered: %v)", k, cnt[k], cnt), "stream-not-exactly-once"
				}
			}
			pair := got["acct1"] + "/" + got["acct4"]
			if pair != "100/100" && pair != "090/110" {
				return "", fmt.Sprintf("the stream delivered acct1=%s acct4=%s: no single snapshot holds this pair (the transfer 100/100 -> 090/110 is one transaction)", got["acct1"], got["acct4"]), "stream-mixed-snapshot"
			}
			return pair, "", ""
		},
	})
}
