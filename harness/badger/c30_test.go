package badger

// C30 — sequence numbers are unique and increasing.

import (
	"fmt"
	"sort"
	"strings"

	"github.com/dgraph-io/badger/v4/vshim/sched"
)

type c30State struct {
	seqs []*Sequence
	got  [][]uint64
	errs [][]string
}

func init() {
	registerSched(&schedScenario{
		name:   "c30seq",
		points: []string{"op", "commit.ts", "readTs.wait", "seq.leased"},
		setup: func(x *schedExec) {
			o := smallOpts(x.dir)
			if x.j.Bool("no_conflict_detection", false) {
				o.DetectConflicts = false // the lease transactions of different objects then no longer exclude each other
			}
			o.InMemory, o.Dir, o.ValueDir = true, "", ""
			x.db = mustOpen(o)
			st := &c30State{}
			n := x.j.Int("objects", 2)
			for i := 0; i < n; i++ {
				s, err := x.db.GetSequence([]byte("seq"), uint64(x.j.Int("bandwidth", 2)))
				if err != nil {
					panic(err)
				}
				st.seqs = append(st.seqs, s)
			}
			st.got = make([][]uint64, n)
			st.errs = make([][]string, n)
			x.state = st
		},
		threads: func(x *schedExec) []sched.Thread {
			st := x.state.(*c30State)
			var ths []sched.Thread
			want := x.j.Int("nexts", 3)
			release := x.j.Bool("release", false)
			for i := range st.seqs {
				i := i
				ths = append(ths, sched.Thread{Name: fmt.Sprintf("S%d", i), Body: func() {
					tries := 0
					for len(st.got[i]) < want && tries < want+4 {
						x.s.Point("op")
						tries++
						v, err := st.seqs[i].Next()
						if err != nil {
							st.errs[i] = append(st.errs[i], err.Error())
							continue // retry, as a caller would
						}
						st.got[i] = append(st.got[i], v)
						if release && len(st.got[i]) == 1 {
							x.s.Point("op")
							if err := st.seqs[i].Release(); err != nil {
								st.errs[i] = append(st.errs[i], "release: "+err.Error())
							}
						}
					}
				}})
			}
			return ths
		},
		check: func(x *schedExec) (string, string, string) {
			st := x.state.(*c30State)
			seen := map[uint64]int{}
			for i, g := range st.got {
				for j, v := range g {
					if j > 0 && g[j-1] >= v {
						return "", fmt.Sprintf("object %d returned %v: not strictly increasing", i, g), "sequence-not-increasing"
					}
					if o, dup := seen[v]; dup {
						return "", fmt.Sprintf("number %d handed out twice (objects %d and %d); returned: %v, errors: %v", v, o, i, st.got, st.errs), map[bool]string{false: "sequence-duplicate", true: "sequence-duplicate/conflict-detection-off"}[x.j.Bool("no_conflict_detection", false)]
					}
					seen[v] = i
				}
			}
			// a fresh object after all this must continue above everything handed out
			s, err := x.db.GetSequence([]byte("seq"), 2)
			if err != nil {
				return "", "GetSequence: " + err.Error(), "sequence-error"
			}
			v, err := s.Next()
			if err != nil {
				return "", "Next: " + err.Error(), "sequence-error"
			}
			if _, dup := seen[v]; dup {
				return "", fmt.Sprintf("a new Sequence object returned %d which was already handed out (%v)", v, st.got), "sequence-duplicate-after"
			}
			var all []string
			for _, g := range st.got {
				all = append(all, fmt.Sprint(g))
			}
			sort.Strings(all)
			return strings.Join(all, ""), "", ""
		},
	})
}
