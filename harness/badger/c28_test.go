package badger

// C28 — writes validate keys and sizes deterministically; accepted transactions fit.

import (
	"bytes"
	"fmt"
	"strings"

	"github.com/dgraph-io/badger/v4/y"
)

func init() {
	registerEnum("c28validate", func(e *enumCtx) {
		e.journal = true
		type cfg struct {
			name     string
			inmem    bool
			nsOffset int
		}
		for _, c := range []cfg{{"disk", false, -1}, {"inmem", true, -1}, {"ns0", true, 0}, {"ns3", true, 3}} {
			c := c
			e.do("validate/"+c.name, func() (string, string) {
				dir := freshDir(e.j)
				o := smallOpts(dir)
				if c.inmem {
					o.InMemory, o.Dir, o.ValueDir = true, "", ""
				}
				o.NamespaceOffset = c.nsOffset
				o.MemTableSize = 8 << 20 // large batches allowed: we test key/value limits here
				db := mustOpen(o)
				defer db.Close()
				if c.nsOffset >= 0 {
					if err := db.BanNamespace(0x4242424242424242); err != nil {
						return "ban", err.Error()
					}
				}
				bannedKey := func(extra int) []byte {
					k := bytes.Repeat([]byte{'p'}, c.nsOffset)
					k = append(k, y.U64ToBytes(0x4242424242424242)...)
					return append(k, bytes.Repeat([]byte{'s'}, extra)...)
				}
				type tc struct {
					name string
					key  []byte
					val  []byte
					ok   bool
				}
				vlimit := int(o.ValueLogFileSize)
				if c.inmem {
					vlimit = int(db.valueThreshold())
				}
				cases := []tc{
					{"empty-key", []byte{}, []byte("v"), false},
					{"nil-key", nil, []byte("v"), false},
					{"reserved-prefix", []byte("!badger!x"), []byte("v"), false},
					{"reserved-exact", []byte("!badger!"), []byte("v"), false},
					{"almost-reserved", []byte("!badger"), []byte("v"), true},
					{"key-1", []byte("k"), []byte("v"), true},
					{"key-65000", bytes.Repeat([]byte("K"), 65000), []byte("v"), true},
					{"key-65001", bytes.Repeat([]byte("K"), 65001), []byte("v"), false},
					{"empty-value", []byte("ev"), []byte{}, true},
					{"nil-value", []byte("nv"), nil, true},
				}
				if c.inmem {
					// in memory the value limit is the value threshold (32 bytes here): a short value over
					// it must be refused with an error like any other
					cases = append(cases, tc{"inmem-value-at-limit", []byte("ml"), bytes.Repeat([]byte("V"), vlimit), true},
						tc{"inmem-value-over-limit", []byte("mo"), bytes.Repeat([]byte("V"), vlimit+1), false})
				}
				if !c.inmem {
					cases = append(cases, tc{"value-at-limit", []byte("big"), bytes.Repeat([]byte("V"), vlimit), true},
						tc{"value-over-limit", []byte("big2"), bytes.Repeat([]byte("V"), vlimit+1), false})
				}
				if c.nsOffset >= 0 {
					cases = append(cases,
						tc{"banned-ns-exact", bannedKey(0), []byte("v"), false}, // the namespace is the key's last 8 bytes
						tc{"banned-ns-long", bannedKey(1), []byte("v"), false},
						tc{"banned-ns-longer", bannedKey(5), []byte("v"), false},
						tc{"short-of-namespace", bannedKey(0)[:c.nsOffset+7], []byte("v"), true},
						tc{"other-ns", append(append(bytes.Repeat([]byte{'p'}, c.nsOffset), y.U64ToBytes(0x4141414141414141)...), 's'), []byte("v"), true})
				}
				for _, t := range cases {
					for _, del := range []bool{false, true} {
						// the bad write sits between two good ones: it must leave the transaction unaffected
						txn := db.NewTransaction(true)
						if err := txn.Set([]byte("before"), []byte("b-"+t.name)); err != nil {
							return "setup", err.Error()
						}
						var err error
						if del {
							err = txn.Delete(t.key)
						} else {
							err = txn.Set(t.key, t.val)
						}
						// a key exactly filling the namespace window (len == offset+8) is not inspected
						if (err == nil) != t.ok {
							txn.Discard()
							if del && strings.HasSuffix(t.name, "value-over-limit") {
								continue // Delete carries no value
							}
							return "validation", fmt.Sprintf("%s/%s del=%v: error %v, expected accepted=%v", c.name, t.name, del, err, t.ok)
						}
						if err2 := txn.Set([]byte("after"), []byte("a-"+t.name)); err2 != nil {
							return "validation-poisoned", fmt.Sprintf("%s/%s: a valid Set after the rejected write failed: %v", c.name, t.name, err2)
						}
						if cerr := txn.Commit(); cerr != nil {
							return "validation-commit", fmt.Sprintf("%s/%s del=%v: Commit after the write (err %v) failed: %v", c.name, t.name, del, err, cerr)
						}
						rt := db.NewTransaction(false)
						if g := getStr(rt, "before"); g != "b-"+t.name {
							rt.Discard()
							return "validation-lost", fmt.Sprintf("%s/%s: key 'before' reads %q", c.name, t.name, g)
						}
						if g := getStr(rt, "after"); g != "a-"+t.name {
							rt.Discard()
							return "validation-lost", fmt.Sprintf("%s/%s: key 'after' reads %q", c.name, t.name, g)
						}
						if t.ok && len(t.key) > 0 {
							it, gerr := rt.Get(t.key)
							if del {
								if gerr != ErrKeyNotFound {
									rt.Discard()
									return "validation-roundtrip", fmt.Sprintf("%s/%s: deleted key reads err %v", c.name, t.name, gerr)
								}
							} else {
								if gerr != nil {
									rt.Discard()
									return "validation-roundtrip", fmt.Sprintf("%s/%s: accepted key unreadable: %v", c.name, t.name, gerr)
								}
								v, _ := it.ValueCopy(nil)
								if !bytes.Equal(v, t.val) && !(len(v) == 0 && len(t.val) == 0) {
									rt.Discard()
									return "validation-roundtrip", fmt.Sprintf("%s/%s: value len %d, wrote %d", c.name, t.name, len(v), len(t.val))
								}
								// an accepted key that Get returns must be returned by an iterator as well
								seen := false
								io := DefaultIteratorOptions
								io.PrefetchValues = false
								iter := rt.NewIterator(io)
								for iter.Seek(t.key); iter.Valid(); iter.Next() {
									if bytes.Equal(iter.Item().Key(), t.key) {
										seen = true
									}
									break
								}
								iter.Close()
								if !seen {
									rt.Discard()
									return "validation-iterator", fmt.Sprintf("%s/%s: the key was accepted and Get returns it, an iterator does not", c.name, t.name)
								}
							}
						}
						if strings.HasPrefix(t.name, "banned-ns") {
							if _, gerr := rt.Get(t.key); gerr != ErrBannedKey {
								rt.Discard()
								return "banned-read", fmt.Sprintf("%s/%s: Get of a banned key returned %v", c.name, t.name, gerr)
							}
						}
						rt.Discard()
					}
				}
				return "", ""
			})
		}
		// size accounting: accepted => Commit never fails with ErrTxnTooBig
		for _, mode := range []string{"normal", "normal-100", "managed-1", "managed-3", "managed-19"} {
			for count := 1; count <= 3; count++ {
				for _, ptr := range []bool{false, true} {
					mode, count, ptr := mode, count, ptr
					e.do(fmt.Sprintf("size/%s/n%d/ptr%v", mode, count, ptr), func() (string, string) {
						o := smallOpts("")
						o.InMemory, o.Dir, o.ValueDir = true, "", ""
						o.MemTableSize = 64 << 10
						o.ValueThreshold = (15 * o.MemTableSize) / 100 // in-memory mode: values up to the threshold are legal
						o.managedTxns = mode[0] == 'm'
						// ~130 commits of ~10 KiB: many flushes, no compactors => never stall on L0
						o.NumLevelZeroTables, o.NumLevelZeroTablesStall = 1<<20, 1<<21
						if ptr {
							dir := freshDir(e.j)
							o.InMemory, o.Dir, o.ValueDir = false, dir, dir
							o.ValueThreshold = 32
						}
						db := mustOpen(o)
						defer db.Close()
						if mode == "normal-100" {
							for i := 0; i < 100; i++ {
								_ = db.Update(func(txn *Txn) error { return txn.Set([]byte("warm"), []byte("x")) })
							}
						}
						limit := int(db.opt.maxBatchSize)
						var cts uint64
						switch mode {
						case "managed-1":
							cts = 7
						case "managed-3":
							cts = 777
						case "managed-19":
							cts = 1000000000000000007
						}
						// the last entry's value size sweeps across the limit
						for last := limit - 120; last <= limit+8; last++ {
							var txn *Txn
							if o.managedTxns {
								txn = db.NewTransactionAt(cts-1, true)
							} else {
								txn = db.NewTransaction(true)
							}
							accepted := true
							for i := 0; i < count; i++ {
								sz := 10
								if i == count-1 {
									sz = last - (count-1)*40
									if ptr {
										sz = 40 + (last % 7) // pointer-sized entries: the count limit decides
									}
								}
								if sz < 0 {
									sz = 0
								}
								if err := txn.Set([]byte(fmt.Sprintf("key-%d", i)), bytes.Repeat([]byte("s"), sz)); err != nil {
									// in memory a value above the value threshold is rejected by validation (legal)
									overThreshold := o.InMemory && int64(sz) > db.valueThreshold()
									if err != ErrTxnTooBig && !overThreshold {
										txn.Discard()
										return "size-set-error", err.Error()
									}
									accepted = false
									break
								}
							}
							if !accepted {
								txn.Discard()
								continue
							}
							var err error
							if o.managedTxns {
								err = txn.CommitAt(cts, nil)
							} else {
								err = txn.Commit()
							}
							if err == ErrTxnTooBig {
								return "accepted-txn-too-big", fmt.Sprintf("%s, %d entries, last value %d bytes (maxBatchSize %d): every Set was accepted but Commit returned ErrTxnTooBig", mode, count, last-(count-1)*40, limit)
							}
							if err != nil {
								return "size-commit-error", err.Error()
							}
						}
						return "", ""
					})
				}
			}
		}
		// rejected writes must not use up the transaction's budget: three times maxBatchCount writes to a
		// banned namespace, then a valid write, Commit and read-back
		e.do("rejected-budget", func() (string, string) {
			o := smallOpts(freshDir(e.j))
			o.NamespaceOffset = 0
			o.MemTableSize = 64 << 10
			db := mustOpen(o)
			defer db.Close()
			if err := db.BanNamespace(0x4242424242424242); err != nil {
				return "ban", err.Error()
			}
			txn := db.NewTransaction(true)
			defer txn.Discard()
			for i := 0; i < 3*int(db.opt.maxBatchCount); i++ {
				k := append(y.U64ToBytes(0x4242424242424242), []byte(fmt.Sprintf("-%06d", i))...)
				var err error
				if i%2 == 0 {
					err = txn.Set(k, bytes.Repeat([]byte("v"), 50))
				} else {
					err = txn.Delete(k)
				}
				if err != ErrBannedKey {
					return "validation", fmt.Sprintf("write %d to a banned namespace returned %v, want ErrBannedKey", i, err)
				}
			}
			if err := txn.Set([]byte("valid-key-after"), []byte("ok")); err != nil {
				return "validation-poisoned", fmt.Sprintf("after %d rejected writes a valid Set failed: %v (rejected writes must leave the transaction unaffected)", 3*db.opt.maxBatchCount, err)
			}
			if err := txn.Commit(); err != nil {
				return "validation-commit", err.Error()
			}
			var got string
			_ = db.View(func(t *Txn) error { got = getStr(t, "valid-key-after"); return nil })
			if got != "ok" {
				return "validation-lost", fmt.Sprintf("valid key reads %q", got)
			}
			return "", ""
		})
		// a moving value threshold (VLogPercentile) must not change the size already accounted for the
		// entries of an open transaction: all Sets accepted => Commit never fails with ErrTxnTooBig
		e.do("size/moving-threshold", func() (string, string) {
			o := smallOpts(freshDir(e.j))
			o.MemTableSize = 1 << 20
			o.ValueThreshold = 32
			o.VLogPercentile = 0.99
			o.NumLevelZeroTables, o.NumLevelZeroTablesStall = 1<<20, 1<<21
			db := mustOpen(o)
			defer db.Close()
			a := db.NewTransaction(true)
			defer a.Discard()
			for i := 0; i < 100; i++ { // 100 x 2000 bytes: pointer-sized while the threshold is 32
				if err := a.Set([]byte(fmt.Sprintf("a-%03d", i)), bytes.Repeat([]byte("A"), 2000)); err != nil {
					return "size-set-error", err.Error()
				}
			}
			for i := 0; i < 12; i++ { // other transactions push the 99th percentile, hence the threshold, up
				if err := db.Update(func(t *Txn) error { return t.Set([]byte(fmt.Sprintf("big-%02d", i)), bytes.Repeat([]byte("B"), 6000)) }); err != nil {
					return "size-commit-error", err.Error()
				}
			}
			for i := 0; i < 2000 && db.valueThreshold() <= 2000; i++ {
				yieldBriefly()
			}
			th := db.valueThreshold()
			if err := a.Commit(); err == ErrTxnTooBig {
				return "accepted-txn-too-big", fmt.Sprintf("100 Sets of 2000 bytes were accepted while the value threshold was 32; the threshold moved to %d; Commit returned ErrTxnTooBig", th)
			} else if err != nil {
				return "size-commit-error", err.Error()
			}
			var n int
			_ = db.View(func(t *Txn) error {
				for i := 0; i < 100; i++ {
					if v := getStr(t, fmt.Sprintf("a-%03d", i)); len(v) == 2000 {
						n++
					}
				}
				return nil
			})
			if n != 100 {
				return "validation-lost", fmt.Sprintf("%d of 100 values read back after the commit", n)
			}
			e.r.AddExtra("threshold_moved_to", th)
			return "", ""
		})
		// the count limit exactly
		e.do("size/count-limit", func() (string, string) {
			o := smallOpts("")
			o.InMemory, o.Dir, o.ValueDir = true, "", ""
			o.MemTableSize = 64 << 10
			db := mustOpen(o)
			defer db.Close()
			txn := db.NewTransaction(true)
			n := 0
			for {
				if err := txn.Set([]byte(fmt.Sprintf("c%05d", n)), []byte("v")); err != nil {
					if err != ErrTxnTooBig {
						return "count-set-error", err.Error()
					}
					break
				}
				n++
			}
			if err := txn.Commit(); err != nil {
				return "accepted-txn-too-big", fmt.Sprintf("%d entries accepted (maxBatchCount %d) but Commit: %v", n, db.opt.maxBatchCount, err)
			}
			return "", ""
		})
	})
}
