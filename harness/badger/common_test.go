package badger

// Harness plumbing shared by all scenarios.  These files live in /verif/harness/badger and are
// injected into package badger as zz_verif_*_test.go by the build overlay, so they can use
// unexported identifiers without any export shim in the repository.

import (
	"bytes"
	"encoding/json"
	"fmt"
	"os"
	"path/filepath"
	"sort"
	"strings"
	gosync "sync"
	"testing"
	"testing/synctest"
	"time"

	"github.com/dgraph-io/badger/v4/options"
	"github.com/dgraph-io/badger/v4/vshim/sched"
	"github.com/dgraph-io/badger/v4/vshim/vlib"
	"github.com/dgraph-io/badger/v4/vshim/vsync"
	"github.com/dgraph-io/badger/v4/y"
)

type scenarioFn func(t *testing.T, j *vlib.Job, r *vlib.Result)

var scenarios = map[string]scenarioFn{}

func register(name string, f scenarioFn) { scenarios[name] = f }

// TestVerif is the single entry point of the harness binary: the driver runs
// `badger.test -test.run ^TestVerif$` with VERIF_JOB pointing at a job file.
func TestVerif(t *testing.T) {
	if os.Getenv("VERIF_LOCK_HELPER") != "" {
		lockHelperMain() // C35: this process plays the third database handle
		return
	}
	// The zstd encoder/decoder are process-wide singletons with internal channels: create them here,
	// outside any synctest bubble, so that every bubble may use them.
	if c, err := y.ZSTDCompress(nil, []byte("warm-up"), 1); err == nil {
		_, _ = y.ZSTDDecompress(nil, c)
	}
	j, err := vlib.ReadJob()
	if err != nil {
		t.Fatalf("bad job: %v", err)
	}
	if j == nil {
		t.Skip("no VERIF_JOB")
	}
	f, ok := scenarios[j.Scenario]
	if !ok {
		names := []string{}
		for k := range scenarios {
			names = append(names, k)
		}
		sort.Strings(names)
		t.Fatalf("unknown scenario %q; have %v", j.Scenario, names)
	}
	if j.Scratch == "" {
		j.Scratch = filepath.Join("/dev/shm", fmt.Sprintf("verif-%d", os.Getpid()))
	}
	_ = os.MkdirAll(j.Scratch, 0o755)
	defer os.RemoveAll(j.Scratch)
	r := &vlib.Result{Property: j.Property, Scenario: j.Scenario, Shard: j.Shard, Bound: j.Bound}
	start := time.Now()
	f(t, j, r)
	r.WallS = time.Since(start).Seconds()
	if j.Out != "" {
		if err := r.Write(j.Out); err != nil {
			t.Fatalf("write result: %v", err)
		}
	} else {
		b, _ := json.MarshalIndent(r, "", " ")
		fmt.Println(string(b))
	}
}

// ---------------------------------------------------------------------------------------
// DB helpers

var dirCounter int

func freshDir(j *vlib.Job) string {
	dirCounter++
	d := filepath.Join(j.Scratch, fmt.Sprintf("x%d", dirCounter))
	_ = os.RemoveAll(d)
	_ = os.MkdirAll(d, 0o755)
	return d
}

// smallOpts are the base options of nearly every scenario: tiny tables so thresholds are
// reached with a handful of writes, no background compactors (compactions are explicit
// transitions), no logger, no caches unless needed.
func smallOpts(dir string) Options {
	o := DefaultOptions(dir)
	o.Logger = nil
	o.MetricsEnabled = false
	o.NumCompactors = 0
	o.MemTableSize = 64 << 10
	o.BaseTableSize = 4 << 10
	o.BaseLevelSize = 8 << 10
	o.MaxLevels = 4
	o.NumLevelZeroTables = 3
	o.NumLevelZeroTablesStall = 8
	o.NumMemtables = 3
	o.ValueThreshold = 32
	o.ValueLogFileSize = 1 << 20
	o.Compression = options.None
	o.BlockCacheSize = 0
	o.IndexCacheSize = 0
	o.BlockSize = 1024
	o.DetectConflicts = true
	return o
}

func mustOpen(o Options) *DB {
	var db *DB
	var err error
	if o.managedTxns {
		db, err = OpenManaged(o)
	} else {
		db, err = Open(o)
	}
	if err != nil {
		panic(fmt.Sprintf("open: %v", err))
	}
	return db
}

// inBubble runs f in a fresh synctest bubble (own virtual clock).
func inBubble(t *testing.T, f func()) {
	defer func() {
		if r := recover(); r != nil {
			// A failed Open leaks badger goroutines (watermarks, size/cache monitors); the bubble
			// then reports them when its root exits.  The body's own result has been recorded
			// already, so this particular panic is tolerated; the goroutines stay blocked forever.
			if bubbleLeakOK && strings.Contains(fmt.Sprint(r), "blocked goroutines remain") {
				bubbleLeakOK = false
				return
			}
			panic(r)
		}
	}()
	bubbleLeakOK = false
	synctest.Test(t, func(t *testing.T) { f() })
}

// bubbleLeakOK is set by a bubble body that knowingly leaves blocked goroutines behind.
var bubbleLeakOK bool

// ---------------------------------------------------------------------------------------
// generic sched-scenario runner

type schedExec struct {
	hooks  map[string]func() // called (in the hooked goroutine) when the named point is reached
	j      *vlib.Job
	s      *sched.Sched
	db     *DB
	dir    string
	state  any
	prefix []int
}

type schedScenario struct {
	name   string
	points []string
	// setup opens the database and prepares state (hook not yet installed).
	setup func(x *schedExec)
	// threads returns the harness threads.
	threads func(x *schedExec) []sched.Thread
	// check is the oracle; runs after all threads finished, hook removed, db still open.
	check func(x *schedExec) (outcome, violation, class string)
	// afterStep optional per-step invariant; returns violation text.
	afterStep func(x *schedExec) string
	// teardown optional; default closes x.db.
	teardown func(x *schedExec)
	horizon  time.Duration
	fine     bool
}

func (sc *schedScenario) runOne(t *testing.T, j *vlib.Job, prefix []int) *sched.Exec {
	res := &sched.Exec{}
	j.WriteJournal(map[string]any{"scenario": sc.name, "choices": prefix, "case": j.Int("case", 0)})
	inBubble(t, func() {
		x := &schedExec{j: j, prefix: prefix}
		x.dir = freshDir(j)
		sc.setup(x)
		synctest.Wait() // background goroutines started by the setup have settled
		s := sched.New(prefix, sc.points)
		if sc.horizon > 0 {
			s.Horizon = sc.horizon
		}
		x.s = s
		res.S = s
		stepViol := ""
		if sc.afterStep != nil {
			s.AfterStep = func(*sched.Sched) {
				if stepViol == "" {
					stepViol = sc.afterStep(x)
				}
			}
		}
		y.VerifPointFn = func(name string) {
			if name == "commit.ts" {
				// runs under writeChLock right after the conflict check: event order = check order
				s.Log("check tid=%d", s.Tid())
			}
			if h := x.hooks[name]; h != nil {
				h()
			}
			s.Point(name)
		}
		if sc.fine {
			// fine mode: every lock acquisition in badger code is a schedule point
			vsync.FineHook = func(op string) {
				if op == "lock" || op == "rlock" {
					s.Point("lock")
				}
			}
		}
		s.Run(sc.threads(x))
		vsync.FineHook = nil
		y.VerifPointFn = nil
		switch {
		case len(s.Panics) > 0:
			res.Outcome = "PANIC"
			res.Violation = s.Panics[0]
			res.Class = "panic/" + panicClass(s.Panics[0])
		case s.Diverged != "":
			res.Violation, res.Class = "replay diverged: "+s.Diverged, "internal/diverged"
		case s.Deadlock:
			res.Outcome = "DEADLOCK"
			res.Violation = "threads did not finish within the virtual horizon\n" + trimDump(stuckFirst(s.Dump))
			res.Class = deadlockClass(s.Dump)
		case stepViol != "":
			res.Outcome = "STEPVIOL"
			res.Violation, res.Class = stepViol, "step-invariant"
		default:
			res.Outcome, res.Violation, res.Class = sc.check(x)
		}
		if s.Deadlock || len(s.Panics) > 0 {
			// cannot tear down reliably: the blocked goroutines stay behind in the dead bubble
			bubbleLeakOK = true
			return
		}
		if sc.teardown != nil {
			sc.teardown(x)
		} else if x.db != nil {
			_ = x.db.Close()
		}
		_ = os.RemoveAll(x.dir)
	})
	return res
}

func panicClass(p string) string {
	i := strings.Index(p, "panic: ")
	if i >= 0 {
		p = p[i+7:]
	}
	if j := strings.IndexByte(p, '\n'); j >= 0 {
		p = p[:j]
	}
	var b strings.Builder
	for _, r := range p {
		if r < '0' || r > '9' {
			b.WriteRune(r)
		}
	}
	out := strings.TrimSpace(b.String())
	if len(out) > 60 {
		out = out[:60]
	}
	return out
}

// stuckThreads returns the goroutine blocks of the harness threads that are still blocked.
func stuckThreads(dump string) []string {
	var out []string
	for _, blk := range strings.Split(dump, "\n\n") {
		if strings.Contains(blk, "sched.(*Sched).Run.func1") && !strings.Contains(blk, "sched.(*Sched).loop") {
			out = append(out, blk)
		}
	}
	return out
}

// stuckFirst moves the blocked harness threads to the front of the dump (the dump is trimmed).
func stuckFirst(dump string) string {
	st := stuckThreads(dump)
	if len(st) == 0 {
		return dump
	}
	return "BLOCKED HARNESS THREADS:\n" + strings.Join(st, "\n\n") + "\n\nALL GOROUTINES:\n" + dump
}

// deadlockClass names a deadlock by the badger functions the blocked harness threads are stuck in
// (innermost badger frame of each), e.g. "deadlock/y.(*WaterMark).WaitForMark".
func deadlockClass(dump string) string {
	seen := map[string]bool{}
	var fns []string
	name := func(l string) string {
		fn := strings.TrimPrefix(l, "github.com/dgraph-io/badger/v4")
		fn = strings.TrimLeft(fn, "/.")
		if i := strings.LastIndexByte(fn, '('); i > 0 && strings.HasSuffix(fn, ")") {
			fn = fn[:i] // drop the argument list: the last "(...)" group
		}
		return fn
	}
	for _, blk := range stuckThreads(dump) {
		inner, outer := "", ""
		for _, l := range strings.Split(blk, "\n") {
			if !strings.HasPrefix(l, "github.com/dgraph-io/badger/v4") || strings.Contains(l, "/vshim/") || strings.Contains(l, "zz_verif") ||
				strings.Contains(l, ".init.") || strings.Contains(l, "schedExec") {
				continue
			}
			if inner == "" {
				inner = name(l)
			}
			outer = name(l)
		}
		if inner == "" {
			continue
		}
		fn := outer + "->" + inner // the API call the thread made and where it is stuck
		if outer == inner {
			fn = inner
		}
		if !seen[fn] {
			seen[fn] = true
			fns = append(fns, fn)
		}
	}
	if len(fns) == 0 {
		return "deadlock"
	}
	sort.Strings(fns)
	return "deadlock/" + strings.Join(fns, "+")
}

func trimDump(d string) string {
	if len(d) > 6000 {
		return d[:6000] + "\n...[truncated]"
	}
	return d
}

// explore runs the iterative context-bounded exploration of a scenario for bounds 0..j.Bound and
// fills r.  With j.Replay set it runs exactly that schedule (5 times) instead.
func (sc *schedScenario) explore(t *testing.T, j *vlib.Job, r *vlib.Result) {
	if len(j.Replay) > 0 && string(j.Replay) != "null" {
		var rp struct {
			Choices []int `json:"choices"`
		}
		if err := json.Unmarshal(j.Replay, &rp); err != nil {
			r.Internal = "bad replay: " + err.Error()
			return
		}
		var first string
		for i := 0; i < 3; i++ {
			x := sc.runOne(t, j, rp.Choices)
			r.Evaluations++
			// the failure class (not the text, which may quote random bytes such as mis-decrypted
			// values or goroutine addresses) must be identical on every replay
			sig := x.Outcome + "|" + x.Class
			if x.S.Diverged != "" {
				// the recorded schedule cannot be followed: a failure of the harness, never of the property
				r.Internal = "replay diverged: " + x.S.Diverged
				return
			}
			if i == 0 {
				first = sig
				r.Notes = append(r.Notes, "replay outcome: "+x.Outcome, "trace: "+x.S.TraceString())
				if x.Violation != "" {
					r.Violate(x.Class, x.Violation, map[string]any{"scenario": sc.name, "choices": x.S.Choices()}, x.S.TraceString(), x.S.Events)
				}
			} else if sig != first && !strings.Contains(sig, "goroutine ") {
				r.Internal = "replay not deterministic"
			}
			if x.S.Deadlock {
				break
			}
		}
		return
	}
	start := time.Now()
	e := &sched.Explorer{
		Bound:      j.Bound,
		Shard:      j.Shard,
		NShard:     j.NShard,
		ShardDepth: j.Int("shard_depth", 2),
		Deadline:   j.Deadline(start),
		StopOnViol: true,
		IsKnown:    j.IsKnown,
		// VERIF_INJECT_DIVERGE=n: self-test, see sched.Explorer.InjectDiverge
		InjectDiverge: envInt("VERIF_INJECT_DIVERGE"),
		Run: func(prefix []int) *sched.Exec {
			x := sc.runOne(t, j, prefix)
			if os.Getenv("VERIF_DEBUG") != "" {
				fmt.Printf("EXEC %v -> %s | %s\n", prefix, x.S.TraceString(), x.Outcome)
			}
			return x
		},
	}
	e.Explore()
	if e.Retried > 0 {
		r.AddExtra("diverged_executions_rerun", int64(e.Retried))
	}
	if e.GaveUp > 0 {
		// a prefix that could not be followed on any attempt: its subtree was skipped
		r.AddExtra("diverged_prefixes_skipped", int64(e.GaveUp))
		r.Capped, r.CapReason = true, "nondeterministic prefix skipped"
	}
	if len(e.DivergeLog) > 0 {
		r.Notes = append(r.Notes, e.DivergeLog...)
		if f, err := os.OpenFile(filepath.Join(filepath.Dir(j.Out), "diverge.log"), os.O_APPEND|os.O_CREATE|os.O_WRONLY, 0o644); err == nil {
			fmt.Fprintf(f, "%s %s shard %d bound %d\n%s\n", j.Property, sc.name, j.Shard, j.Bound, strings.Join(e.DivergeLog, "\n"))
			f.Close()
		}
	}
	r.Evaluations += int64(e.Execs)
	r.Dup += int64(e.DupExecs)
	r.States += int64(e.Execs)
	r.Transitions += int64(e.Transitions)
	for k, v := range e.Outcomes {
		r.AddDistinct(sc.name + ":" + k)
		_ = v
	}
	for _, s := range e.Samples {
		r.Sample(map[string]any{"scenario": sc.name, "schedule": s})
	}
	if e.MaxSteps > r.MaxDepth {
		r.MaxDepth = e.MaxSteps
	}
	if e.Capped {
		r.Capped, r.CapReason = true, e.CapReason
	}
	for _, v := range e.Violations {
		r.Violate(v.Class, v.Violation, map[string]any{"scenario": sc.name, "choices": v.S.Choices()}, v.S.TraceString(), v.S.Events)
	}
}

func envInt(name string) int {
	n := 0
	fmt.Sscanf(os.Getenv(name), "%d", &n)
	return n
}

func registerSched(sc *schedScenario) {
	register(sc.name, func(t *testing.T, j *vlib.Job, r *vlib.Result) {
		n := j.Int("cases", 0)
		if n == 0 || (len(j.Replay) > 0 && string(j.Replay) != "null") {
			if len(j.Replay) > 0 && string(j.Replay) != "null" {
				var rp struct {
					Case *int `json:"case"`
				}
				if json.Unmarshal(j.Replay, &rp) == nil && rp.Case != nil {
					if j.Params == nil {
						j.Params = map[string]any{}
					}
					j.Params["case"] = *rp.Case
				}
			}
			sc.explore(t, j, r)
			return
		}
		// a family of small scenarios: case c belongs to shard c % NShard and is explored whole
		shard, nshard := j.Shard, j.NShard
		j.Shard, j.NShard = 0, 1
		if j.Params == nil {
			j.Params = map[string]any{}
		}
		deadline := j.Deadline(time.Now())
		for c := 0; c < n; c++ {
			if c%nshard != shard {
				continue
			}
			if !deadline.IsZero() && time.Now().After(deadline) {
				r.Capped, r.CapReason = true, "deadline"
				break
			}
			j.Params["case"] = c
			before := len(r.Violations)
			sc.explore(t, j, r)
			for i := before; i < len(r.Violations); i++ {
				// make the replay self-contained
				var m map[string]any
				_ = json.Unmarshal(r.Violations[i].Replay, &m)
				m["case"] = c
				r.Violations[i].Replay, _ = json.Marshal(m)
			}
			if len(r.Violations) > before {
				break
			}
		}
		j.Shard, j.NShard = shard, nshard
	})
}

// flushBlocking rotates the active memtable (as ensureRoomForWrite does) from a scheduled harness
// thread and blocks (on a channel, not by polling) until the flusher has added the table to L0.
func (x *schedExec) flushBlocking() {
	done := make(chan struct{})
	var once gosync.Once
	if x.hooks == nil {
		x.hooks = map[string]func(){}
	}
	x.hooks["flush.added"] = func() { once.Do(func() { close(done) }) }
	db := x.db
	db.lock.Lock()
	if db.mt == nil || db.mt.sl.Empty() {
		db.lock.Unlock()
		return
	}
	db.flushChan <- db.mt
	db.imm = append(db.imm, db.mt)
	var err error
	if db.mt, err = db.newMemTable(); err != nil {
		panic(err)
	}
	db.lock.Unlock()
	<-done
}

// ---------------------------------------------------------------------------------------
// small utilities

func kb(s string) []byte { return []byte(s) }

func val(tag string, n int) []byte {
	// deterministic value of length n starting with tag
	b := bytes.Repeat([]byte{'.'}, n)
	copy(b, tag)
	return b
}

func getStr(txn *Txn, k string) string {
	it, err := txn.Get(kb(k))
	if err == ErrKeyNotFound {
		return "<nil>"
	}
	if err != nil {
		return "ERR:" + err.Error()
	}
	v, err := it.ValueCopy(nil)
	if err != nil {
		return "ERR:" + err.Error()
	}
	return string(v)
}

// yieldBriefly lets free-running background goroutines make progress (non-bubble scenarios only).
func yieldBriefly() { time.Sleep(50 * time.Microsecond) }

func removeAll(dir string) {
	if dir != "" {
		_ = os.RemoveAll(dir)
	}
}
