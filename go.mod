module verif

go 1.23.0
