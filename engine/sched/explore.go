package sched

import (
	"fmt"
	"strings"
	"time"
)

func joinEvents(ev []string) string { return strings.Join(ev, "; ") }

// Exec is the result of one execution as seen by the explorer.
type Exec struct {
	S         *Sched
	Outcome   string // canonical observable outcome (for distinct-outcome counting)
	Violation string // non-empty = the oracle rejected this execution
	Class     string // failure class of the violation (for known-findings matching)
}

// Explorer enumerates schedules depth-first with a preemption bound (iterative context
// bounding: the caller runs it with Bound = 0,1,2,...).
type Explorer struct {
	Bound      int
	Run        func(prefix []int) *Exec
	Shard      int
	NShard     int
	ShardDepth int
	Deadline   time.Time
	MaxExecs   int

	Execs       int // executions run by this shard that it owns (counted once across shards)
	DupExecs    int // executions run only to enumerate the shared top of the tree
	Transitions int
	Outcomes    map[string]int
	Capped      bool
	CapReason   string
	Violations  []*Exec
	StopOnViol  bool
	MaxSteps    int
	Samples     []string
	counter     int
	unknown     int
	knownSeen   map[string]int
	// IsKnown: failure classes that are recorded but do not stop the exploration.
	IsKnown func(class string) bool
	// OnExec is called for every owned execution (after the oracle).
	OnExec func(x *Exec)

	// A child execution that cannot follow the prefix recorded by its parent (the menu at a
	// replayed decision is shorter than the recorded alternative) is never a property
	// violation: it is re-run (Retried), and a prefix that diverges on every attempt is given up
	// (GaveUp; its subtree is not explored and the run is reported as not exhaustive).
	Retried    int
	GaveUp     int
	DivergeLog []string // parent schedule / diverging child schedule, first few
	// InjectDiverge > 0 declares every n-th execution diverged once (self-test of the re-run path).
	InjectDiverge int
}

// divergeRetries is how often an execution whose prefix diverged is re-run.
const divergeRetries = 3

func (e *Explorer) Explore() {
	if e.Outcomes == nil {
		e.Outcomes = map[string]int{}
	}
	if e.NShard <= 0 {
		e.NShard = 1
	}
	e.explore(nil, 0, e.NShard == 1 || e.Shard == 0, nil)
}

// followed checks that the child execution x took, at every decision of prefix, the same
// decision out of the same menu as the execution par from which the prefix was derived (the last
// decision of the prefix is the alternative being explored: same menu, other pick).
func followed(x, par *Sched, prefix []int) string {
	if x.Diverged != "" || par == nil {
		return x.Diverged
	}
	if len(x.Trace) < len(prefix) {
		return fmt.Sprintf("execution ended after %d decisions, prefix has %d", len(x.Trace), len(prefix))
	}
	for k := range prefix {
		pm, xm := par.Menus[k], x.Menus[k]
		same := len(pm) == len(xm)
		for i := 0; same && i < len(pm); i++ {
			same = pm[i] == xm[i]
		}
		if !same {
			return fmt.Sprintf("step %d: menu %v, recorded menu %v", k, xm, pm)
		}
		if k < len(prefix)-1 && (x.Trace[k].Tid != par.Trace[k].Tid || x.Trace[k].Point != par.Trace[k].Point) {
			return fmt.Sprintf("step %d: ran %d:%s, recorded %d:%s", k, x.Trace[k].Tid, x.Trace[k].Point, par.Trace[k].Tid, par.Trace[k].Point)
		}
	}
	return ""
}

func (e *Explorer) stop() bool {
	if e.Capped {
		return true
	}
	if e.StopOnViol && e.unknown > 0 {
		return true
	}
	if !e.Deadline.IsZero() && time.Now().After(e.Deadline) {
		e.Capped, e.CapReason = true, "deadline"
		return true
	}
	if e.MaxExecs > 0 && e.Execs >= e.MaxExecs {
		e.Capped, e.CapReason = true, "max-executions"
		return true
	}
	return false
}

// explore runs the execution that follows prefix and then default choices, and recurses into
// every alternative at every later decision point that stays within the preemption bound.
func (e *Explorer) explore(prefix []int, depth int, count bool, par *Sched) {
	if e.stop() {
		return
	}
	x := e.Run(prefix)
	x.S.Diverged = followed(x.S, par, prefix)
	if e.InjectDiverge > 0 && par != nil && (e.Execs+e.DupExecs+1)%e.InjectDiverge == 0 && x.S.Diverged == "" {
		x.S.Diverged = "injected (self-test of the re-run path)"
	}
	for try := 0; x.S.Diverged != "" && try < divergeRetries; try++ {
		if len(e.DivergeLog) < 6 {
			e.DivergeLog = append(e.DivergeLog, "diverged: "+x.S.Diverged+"\n  parent: "+par.TraceMenus()+"\n  child:  "+x.S.TraceMenus()+"\n  events: "+joinEvents(x.S.Events))
		}
		e.Retried++
		x = e.Run(prefix)
		x.S.Diverged = followed(x.S, par, prefix)
	}
	if x.S.Diverged != "" {
		// not reproducible behaviour of the harness, not of the property: skip the subtree
		e.GaveUp++
		return
	}
	s := x.S
	if count {
		e.Execs++
		e.Transitions += len(s.Trace)
		e.Outcomes[x.Outcome]++
		if len(s.Trace) > e.MaxSteps {
			e.MaxSteps = len(s.Trace)
		}
		if len(e.Samples) < 3 {
			e.Samples = append(e.Samples, s.TraceString())
		}
		if e.OnExec != nil {
			e.OnExec(x)
		}
		if x.Violation != "" {
			if e.IsKnown == nil || !e.IsKnown(x.Class) {
				e.unknown++
				e.Violations = append(e.Violations, x)
			} else if e.knownSeen[x.Class] < 2 {
				if e.knownSeen == nil {
					e.knownSeen = map[string]int{}
				}
				e.knownSeen[x.Class]++
				e.Violations = append(e.Violations, x)
			}
		}
	} else {
		e.DupExecs++
	}
	for i := len(prefix); i < len(s.Trace); i++ {
		cost := s.PreemptionsBefore(i)
		if s.CurOK[i] {
			cost++
		}
		if cost > e.Bound {
			continue
		}
		for alt := 1; alt < len(s.Menus[i]); alt++ {
			if e.stop() {
				return
			}
			child := make([]int, i+1)
			copy(child, s.Choices()[:i])
			child[i] = alt
			cd := depth + 1
			switch {
			case e.NShard == 1 || cd > e.ShardDepth:
				e.explore(child, cd, count, s)
			case cd == e.ShardDepth:
				mine := e.counter%e.NShard == e.Shard
				e.counter++
				if mine {
					e.explore(child, cd, true, s)
				}
			default: // cd < ShardDepth: every shard walks it, shard 0 counts it
				e.explore(child, cd, e.Shard == 0, s)
			}
		}
	}
}
