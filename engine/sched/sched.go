// Package sched is the controlled scheduler and stateless, preemption-bounded DFS explorer
// (E-sched in DESIGN.md).  It is mapped into the badger module as
// github.com/dgraph-io/badger/v4/vshim/sched by the build overlay and depends only on the
// standard library, so it can be imported from in-package tests of badger, y, skl, table.
//
// One *execution* runs inside one testing/synctest bubble.  Hooked operations call
// (*Sched).Point(name); the calling goroutine parks on its own channel and the scheduler
// goroutine, after synctest.Wait() reports that every other goroutine of the bubble is
// durably blocked, picks exactly one parked goroutine to continue.  The sequence of picks is
// the schedule; the explorer enumerates schedules depth-first with a preemption bound.
package sched

import (
	"bytes"
	"fmt"
	"runtime"
	"sort"
	"strconv"
	"sync"
	"sync/atomic"
	"testing/synctest"
	"time"
)

// ---------------------------------------------------------------------------------------
// goroutine identity

func goid() uint64 {
	var buf [64]byte
	n := runtime.Stack(buf[:], false)
	// "goroutine 123 [running]:"
	b := buf[:n]
	b = b[len("goroutine "):]
	i := bytes.IndexByte(b, ' ')
	id, _ := strconv.ParseUint(string(b[:i]), 10, 64)
	return id
}

// ---------------------------------------------------------------------------------------

// Choice is one scheduling decision as recorded in a trace.
type Choice struct {
	Tid   int    `json:"t"`
	Point string `json:"p"`
	// Index into the canonical menu (0 = default choice).
	Alt int `json:"a"`
	// Menu size at this decision.
	N int `json:"n"`
}

type parked struct {
	tid  int
	name string
	ch   chan struct{}
}

// Sched is the scheduler of one execution.
type Sched struct {
	mu       sync.Mutex // real mutex: protects the tables below, never held while blocking
	tids     map[uint64]int
	nextTid  int
	parked   map[int]*parked
	enabled  map[string]bool // nil = all points enabled
	active   atomic.Bool     // hook parks only while active
	owner    uint64          // goroutine id of the scheduler goroutine (never parks)
	names    map[int]string  // tid -> label (harness threads) for traces
	done     map[int]bool    // harness thread finished
	nThreads int             // number of harness threads started
	nDone    atomic.Int32

	// schedule control
	prefix  []int // alt indices to replay
	Trace   []Choice
	Menus   [][]int // canonical menu (tids) at each decision
	CurOK   []bool  // whether the previously running thread was in the menu (so alt>0 is a preemption)
	last    int     // tid that ran last
	Steps   int
	MaxStep int
	// Virtual-time horizon for waiting on timers when nothing is parked.
	Horizon  time.Duration
	Quantum  time.Duration
	started  time.Time
	Deadlock bool     // set when the execution ended with unfinished threads and nothing to run
	Dump     string   // goroutine dump on deadlock
	Diverged string   // set when a replayed prefix could not be followed
	Panics   []string // panics raised (and recovered) in harness threads
	// AfterStep, if set, is called by the scheduler goroutine after each step reached quiescence
	// (used for per-step invariants).  It runs with the hook bypassed.
	AfterStep func(s *Sched)
	// Events is a free-form per-execution log that hooks and threads may append to.
	evmu   sync.Mutex
	Events []string
}

// New creates a scheduler. enabled lists the point names that park (nil = every point).
func New(prefix []int, enabled []string) *Sched {
	s := &Sched{
		tids:    map[uint64]int{},
		parked:  map[int]*parked{},
		names:   map[int]string{},
		done:    map[int]bool{},
		prefix:  prefix,
		last:    -1,
		MaxStep: 20000,
		Horizon: 120 * time.Second,
		Quantum: 10 * time.Millisecond,
	}
	if enabled != nil {
		s.enabled = map[string]bool{}
		for _, e := range enabled {
			s.enabled[e] = true
		}
		// "start" always parks so that thread start order is a scheduling decision.
		s.enabled["start"] = true
	}
	return s
}

// Log appends an event to the execution's event log (safe from any goroutine).
func (s *Sched) Log(format string, a ...any) {
	s.evmu.Lock()
	s.Events = append(s.Events, fmt.Sprintf(format, a...))
	s.evmu.Unlock()
}

// Enabled reports whether a point name parks.
func (s *Sched) Enabled(name string) bool {
	return s.enabled == nil || s.enabled[name]
}

func (s *Sched) tidOf(g uint64, create bool) (int, bool) {
	t, ok := s.tids[g]
	if !ok && create {
		t = s.nextTid
		s.nextTid++
		s.tids[g] = t
		ok = true
	}
	return t, ok
}

// Point is the hook: the calling goroutine parks here until the scheduler releases it.
// It returns immediately when the scheduler is not active, for the scheduler goroutine itself,
// and for point names the scenario did not enable.
func (s *Sched) Point(name string) {
	if s == nil || !s.active.Load() {
		return
	}
	if s.enabled != nil && !s.enabled[name] {
		return
	}
	g := goid()
	if g == s.owner {
		return
	}
	s.mu.Lock()
	tid, _ := s.tidOf(g, true)
	p := &parked{tid: tid, name: name, ch: make(chan struct{})}
	s.parked[tid] = p
	s.mu.Unlock()
	<-p.ch
}

// Thread is a harness thread body.
type Thread struct {
	Name string
	Body func()
}

// Run executes the threads under the scheduler until all of them have finished (or deadlock /
// horizon / step limit).  Must be called from inside a synctest bubble; the caller is the
// scheduler goroutine.
func (s *Sched) Run(threads []Thread) {
	s.owner = goid()
	s.started = time.Now()
	s.nThreads = len(threads)
	s.active.Store(true)
	for i, th := range threads {
		i, th := i, th
		start := make(chan struct{})
		ready := make(chan uint64)
		go func() {
			ready <- goid()
			<-start
			s.Point("start")
			func() {
				defer func() {
					if r := recover(); r != nil {
						s.mu.Lock()
						s.Panics = append(s.Panics, fmt.Sprintf("thread %s: panic: %v\n%s", th.Name, r, shortStack()))
						s.mu.Unlock()
					}
				}()
				th.Body()
			}()
			s.mu.Lock()
			s.done[i] = true
			s.mu.Unlock()
			s.nDone.Add(1)
		}()
		g := <-ready
		s.mu.Lock()
		s.tids[g] = i
		s.names[i] = th.Name
		if s.nextTid <= i {
			s.nextTid = i + 1
		}
		s.mu.Unlock()
		close(start)
	}
	s.loop()
	// Release everything still parked (background goroutines) and let the system settle.
	s.active.Store(false)
	s.releaseAll()
	synctest.Wait()
}

func (s *Sched) releaseAll() {
	s.mu.Lock()
	ps := make([]*parked, 0, len(s.parked))
	for _, p := range s.parked {
		ps = append(ps, p)
	}
	s.parked = map[int]*parked{}
	s.mu.Unlock()
	sort.Slice(ps, func(i, j int) bool { return ps[i].tid < ps[j].tid })
	for _, p := range ps {
		close(p.ch)
	}
}

func (s *Sched) allDone() bool { return int(s.nDone.Load()) == s.nThreads }

func (s *Sched) loop() {
	for {
		synctest.Wait()
		if s.AfterStep != nil && s.Steps > 0 {
			s.AfterStep(s)
		}
		if s.allDone() {
			return
		}
		s.mu.Lock()
		menu := make([]int, 0, len(s.parked))
		for tid := range s.parked {
			menu = append(menu, tid)
		}
		s.mu.Unlock()
		if len(menu) == 0 {
			// Nothing parked but threads unfinished: they are blocked inside the code under
			// test.  If timers are pending, let virtual time advance; otherwise deadlock.
			if time.Since(s.started) >= s.Horizon {
				s.Deadlock = true
				s.Dump = allStacks()
				return
			}
			time.Sleep(s.Quantum)
			continue
		}
		sort.Ints(menu)
		// canonical order: last-run thread first if present
		curOK := false
		for i, t := range menu {
			if t == s.last {
				curOK = true
				copy(menu[1:i+1], menu[:i])
				menu[0] = t
				break
			}
		}
		alt := 0
		if s.Steps < len(s.prefix) {
			alt = s.prefix[s.Steps]
			if alt >= len(menu) {
				s.Diverged = fmt.Sprintf("step %d: prefix wants alt %d, menu has %d entries", s.Steps, alt, len(menu))
				alt = 0
			}
		}
		tid := menu[alt]
		s.mu.Lock()
		p := s.parked[tid]
		delete(s.parked, tid)
		s.mu.Unlock()
		s.Trace = append(s.Trace, Choice{Tid: tid, Point: p.name, Alt: alt, N: len(menu)})
		s.Menus = append(s.Menus, menu)
		s.CurOK = append(s.CurOK, curOK)
		s.last = tid
		s.Steps++
		close(p.ch)
		if s.Steps >= s.MaxStep {
			s.Deadlock = true
			s.Dump = "step limit reached\n" + allStacks()
			return
		}
	}
}

func shortStack() string {
	buf := make([]byte, 4096)
	n := runtime.Stack(buf, false)
	return string(buf[:n])
}

func allStacks() string {
	buf := make([]byte, 1<<20)
	n := runtime.Stack(buf, true)
	return string(buf[:n])
}

// Choices returns the alt indices of the trace.
func (s *Sched) Choices() []int {
	out := make([]int, len(s.Trace))
	for i, c := range s.Trace {
		out[i] = c.Alt
	}
	return out
}

// PreemptionsBefore counts preemptions among the first i decisions.
func (s *Sched) PreemptionsBefore(i int) int {
	n := 0
	for k := 0; k < i && k < len(s.Trace); k++ {
		if s.Trace[k].Alt > 0 && s.CurOK[k] {
			n++
		}
	}
	return n
}

// TraceString renders the schedule compactly.
func (s *Sched) TraceString() string {
	var b bytes.Buffer
	for i, c := range s.Trace {
		if i > 0 {
			b.WriteByte(' ')
		}
		fmt.Fprintf(&b, "%d:%s", c.Tid, c.Point)
	}
	return b.String()
}

// TraceMenus renders the schedule with the menu of every decision (diagnostics).
func (s *Sched) TraceMenus() string {
	var b bytes.Buffer
	for i, c := range s.Trace {
		if i > 0 {
			b.WriteByte(' ')
		}
		fmt.Fprintf(&b, "%d:%s%v", c.Tid, c.Point, s.Menus[i])
	}
	return b.String()
}

// Tid returns the logical thread id of the calling goroutine (-1 if unknown).
func (s *Sched) Tid() int {
	g := goid()
	s.mu.Lock()
	defer s.mu.Unlock()
	if t, ok := s.tids[g]; ok {
		return t
	}
	return -1
}

// Active reports whether the scheduler is currently scheduling.
func (s *Sched) Active() bool { return s.active.Load() }
