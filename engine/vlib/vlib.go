// Package vlib holds the job/result plumbing shared by the check driver (cmd/vcheck) and the
// harness test binaries (where it is mapped to .../vshim/vlib by the overlay).  Std only.
package vlib

import (
	"encoding/json"
	"fmt"
	"os"
	"sort"
	"time"
)

// Job is what the driver hands to one worker process (env VERIF_JOB = path of the JSON file).
type Job struct {
	Property string          `json:"property"`
	Scenario string          `json:"scenario"`
	Tier     string          `json:"tier"`
	Seed     int64           `json:"seed"`
	Shard    int             `json:"shard"`
	NShard   int             `json:"nshard"`
	Bound    int             `json:"bound"`    // preemption / deviation bound (sched scenarios)
	BudgetS  float64         `json:"budget_s"` // soft deadline for the enumeration (exit 0, exhaustive:false)
	Replay   json.RawMessage `json:"replay"`   // non-null: replay exactly this case
	Out      string          `json:"out"`      // result file
	Journal  string          `json:"journal"`  // file holding the case about to run (crash forensics)
	Scratch  string          `json:"scratch"`  // scratch directory for databases
	Params   map[string]any  `json:"params"`
	Known    []string        `json:"known"` // failure classes listed as known findings: recorded, do not stop
}

// IsKnown reports whether class is a listed known finding for this job's property.
func (j *Job) IsKnown(class string) bool {
	for _, k := range j.Known {
		if k == class {
			return true
		}
	}
	return false
}

// Violation is one failed case, replayable.
type Violation struct {
	Desc   string          `json:"desc"`
	Class  string          `json:"class"`
	Replay json.RawMessage `json:"replay"`
	Trace  string          `json:"trace,omitempty"`
	Events []string        `json:"events,omitempty"`
}

// Result is what a worker reports.
type Result struct {
	Property    string           `json:"property"`
	Scenario    string           `json:"scenario"`
	Shard       int              `json:"shard"`
	Evaluations int64            `json:"evaluations"`
	Dup         int64            `json:"dup"`
	States      int64            `json:"states"`
	Transitions int64            `json:"transitions"`
	Distinct    int64            `json:"distinct"`
	DistinctSet map[string]int64 `json:"distinct_set,omitempty"` // merged across shards when present
	Samples     []any            `json:"samples,omitempty"`
	Capped      bool             `json:"capped"`
	CapReason   string           `json:"cap_reason,omitempty"`
	Bound       int              `json:"bound"`
	MaxDepth    int              `json:"max_depth"`
	Violations  []Violation      `json:"violations,omitempty"`
	WallS       float64          `json:"wall_s"`
	Notes       []string         `json:"notes,omitempty"`
	Extra       map[string]int64 `json:"extra,omitempty"`
	Internal    string           `json:"internal,omitempty"` // harness-internal error (never a violation)
}

func ReadJob() (*Job, error) {
	p := os.Getenv("VERIF_JOB")
	if p == "" {
		return nil, nil
	}
	b, err := os.ReadFile(p)
	if err != nil {
		return nil, err
	}
	j := &Job{}
	if err := json.Unmarshal(b, j); err != nil {
		return nil, err
	}
	if j.NShard <= 0 {
		j.NShard = 1
	}
	return j, nil
}

func (j *Job) Deadline(start time.Time) time.Time {
	if j.BudgetS <= 0 {
		return time.Time{}
	}
	return start.Add(time.Duration(j.BudgetS * float64(time.Second)))
}

func (j *Job) Int(name string, def int) int {
	if v, ok := j.Params[name]; ok {
		switch x := v.(type) {
		case float64:
			return int(x)
		case int:
			return x
		}
	}
	return def
}

func (j *Job) Str(name, def string) string {
	if v, ok := j.Params[name]; ok {
		if s, ok := v.(string); ok {
			return s
		}
	}
	return def
}

func (j *Job) Bool(name string, def bool) bool {
	if v, ok := j.Params[name]; ok {
		if s, ok := v.(bool); ok {
			return s
		}
	}
	return def
}

// WriteJournal records the case about to be run.
func (j *Job) WriteJournal(c any) {
	if j.Journal == "" {
		return
	}
	b, _ := json.Marshal(c)
	_ = os.WriteFile(j.Journal, b, 0o644)
}

func (r *Result) Write(path string) error {
	b, err := json.Marshal(r)
	if err != nil {
		return err
	}
	tmp := path + ".tmp"
	if err := os.WriteFile(tmp, b, 0o644); err != nil {
		return err
	}
	return os.Rename(tmp, path)
}

func (r *Result) AddDistinct(k string) {
	if r.DistinctSet == nil {
		r.DistinctSet = map[string]int64{}
	}
	r.DistinctSet[k]++
}

func (r *Result) AddExtra(k string, n int64) {
	if r.Extra == nil {
		r.Extra = map[string]int64{}
	}
	r.Extra[k] += n
}

func (r *Result) Sample(v any) {
	if len(r.Samples) < 4 {
		r.Samples = append(r.Samples, v)
	}
}

func (r *Result) Violate(class, desc string, replay any, trace string, events []string) {
	b, _ := json.Marshal(replay)
	n := 0
	for _, v := range r.Violations {
		if v.Class == class {
			n++
		}
	}
	if n >= 2 {
		return // two instances per class are enough
	}
	if len(r.Violations) < 20 {
		r.Violations = append(r.Violations, Violation{Desc: desc, Class: class, Replay: b, Trace: trace, Events: events})
	}
}

// Merge folds another shard's result into r.
func (r *Result) Merge(o *Result) {
	r.Evaluations += o.Evaluations
	r.Dup += o.Dup
	r.States += o.States
	r.Transitions += o.Transitions
	if o.DistinctSet != nil {
		if r.DistinctSet == nil {
			r.DistinctSet = map[string]int64{}
		}
		for k, v := range o.DistinctSet {
			r.DistinctSet[k] += v
		}
	} else {
		r.Distinct += o.Distinct
	}
	for _, s := range o.Samples {
		r.Sample(s)
	}
	if o.Capped {
		r.Capped = true
		if r.CapReason == "" {
			r.CapReason = o.CapReason
		}
	}
	if o.MaxDepth > r.MaxDepth {
		r.MaxDepth = o.MaxDepth
	}
	r.Violations = append(r.Violations, o.Violations...)
	if o.WallS > r.WallS {
		r.WallS = o.WallS
	}
	r.Notes = append(r.Notes, o.Notes...)
	for k, v := range o.Extra {
		r.AddExtra(k, v)
	}
	if o.Internal != "" && r.Internal == "" {
		r.Internal = o.Internal
	}
}

func (r *Result) DistinctCount() int64 {
	if r.DistinctSet != nil {
		return int64(len(r.DistinctSet)) + r.Distinct
	}
	return r.Distinct
}

// TopDistinct returns up to n keys of the distinct set (sorted) for evidence.
func (r *Result) TopDistinct(n int) []string {
	ks := make([]string, 0, len(r.DistinctSet))
	for k := range r.DistinctSet {
		ks = append(ks, k)
	}
	sort.Strings(ks)
	if len(ks) > n {
		ks = ks[:n]
	}
	return ks
}

func Sprintf(f string, a ...any) string { return fmt.Sprintf(f, a...) }
