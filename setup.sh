#!/bin/bash
# Run once after a fresh restore, offline: builds the driver, the overlay generator and warms the
# Go build cache for the harness binaries.
set -e
cd /verif
export GOFLAGS=-mod=mod GOPROXY=off GOSUMDB=off GOTOOLCHAIN=local
mkdir -p .work/bin evidence
go1.26.8 build -o .work/bin/mkoverlay ./tools/mkoverlay
go1.26.8 build -o .work/bin/vcheck ./cmd/vcheck
.work/bin/vcheck prebuild
echo setup done
