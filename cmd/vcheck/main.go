// vcheck is the check driver: `vcheck <PROPERTY> --tier quick|thorough [--replay file]`.
//
// It regenerates the build overlay from the current /repo tree, rebuilds the harness test
// binaries the property needs (tag verif), runs the property's plan as up to 16 worker
// processes, merges their results into evidence/<ID>.json and exits 0, or 1 after printing
// `VIOLATION property=<ID> replay=<path>`.  Known findings (known_findings.json) are printed as
// `KNOWN-FINDING: property=<ID> <what fails>` and do not fail the run.  Exit 2 = the machinery
// itself failed (build error, worker crash that does not reproduce): never a violation.
package main

import (
	"encoding/json"
	"flag"
	"fmt"
	"os"
	"os/exec"
	"path/filepath"
	"sort"
	"strconv"
	"strings"
	"sync"
	"time"

	"verif/engine/vlib"
)

// verifDir is where the machinery lives; VERIF_DIR lets tools/mutcheck.sh run against a frozen
// copy of it, so that checks of seeded changes are not disturbed by edits in progress.
var verifDir = envOr("VERIF_DIR", "/verif")

// repoDir, workDir and evidenceDir can be redirected through the environment so that a seeded
// change can be checked in a scratch worktree without touching /repo, /verif/.work or the
// committed evidence (tools/mutcheck.sh).  Registered checks never set these.
var (
	repoDir     = envOr("VERIF_REPO", "/repo")
	workDir     = envOr("VERIF_WORK", filepath.Join(verifDir, ".work"))
	evidenceDir = envOr("VERIF_EVIDENCE_DIR", filepath.Join(verifDir, "evidence"))
)

func envOr(k, d string) string {
	if v := os.Getenv(k); v != "" {
		return v
	}
	return d
}

// Stage is one enumeration of the plan of a property.
type Stage struct {
	Binary      string         // e.g. "badger.coarse"
	Scenario    string         // scenario name registered in the harness
	Params      map[string]any // scenario parameters
	Bound       int            // preemption/deviation bound
	NShard      int            // number of worker processes
	BudgetS     float64        // soft deadline per worker
	Optional    bool           // thorough-only extras
	Kind        string         // "" = plain sharded stage, "bfs" = level-synchronous BFS
	Depth       int            // bfs depth
	Seeds       [][]string     // bfs seed sequences
	MaxFrontier int
}

type Plan struct {
	Engine    string
	Text      string // level_claimed.text
	Note      string // level_note
	ID        string
	Level     string // evidence level
	Rule      string
	Assume    []string
	Stages    []Stage
	Technique string
}

type knownFinding struct {
	Property string `json:"property"`
	Class    string `json:"class"`
	What     string `json:"what"`
	Status   string `json:"status"` // "known" or "fixed"
	Commit   string `json:"commit,omitempty"`
}

func goEnv() []string {
	env := os.Environ()
	env = append(env, "GOFLAGS=-mod=mod", "GOPROXY=off", "GOSUMDB=off", "GOTOOLCHAIN=local", "CGO_ENABLED=1")
	return env
}

func run(dir string, env []string, name string, args ...string) (string, error) {
	c := exec.Command(name, args...)
	c.Dir = dir
	c.Env = env
	out, err := c.CombinedOutput()
	return string(out), err
}

type variant struct {
	pkg   string   // package dir relative to repo
	ov    string   // overlay name
	ovArg []string // mkoverlay args
	race  bool
}

var variants = map[string]variant{
	"badger.coarse": {pkg: ".", ov: "coarse"},
	"badger.fine":   {pkg: ".", ov: "fine", ovArg: []string{"-atomic", "y,skl", "-chanpoints", "y/watermark.go"}},
	"y.fine":        {pkg: "./y", ov: "fine", ovArg: []string{"-atomic", "y,skl", "-chanpoints", "y/watermark.go"}},
	"skl.fine":      {pkg: "./skl", ov: "fine", ovArg: []string{"-atomic", "y,skl", "-chanpoints", "y/watermark.go"}},
	"table.coarse":  {pkg: "./table", ov: "coarse"},
	"trie.coarse":   {pkg: "./trie", ov: "coarse"},
	"y.coarse":      {pkg: "./y", ov: "coarse"},
	"skl.coarse":    {pkg: "./skl", ov: "coarse"},
	"badger.race":   {pkg: ".", ov: "race", ovArg: []string{"-nosync"}, race: true},
	"skl.race":      {pkg: "./skl", ov: "race", ovArg: []string{"-nosync"}, race: true},
}

var builtOv = map[string]bool{}

var onlyStage = -1

func build(binary string) error {
	v, ok := variants[binary]
	if !ok {
		return fmt.Errorf("unknown binary %q", binary)
	}
	_ = os.MkdirAll(filepath.Join(workDir, "bin"), 0o755)
	mk := filepath.Join(workDir, "bin", "mkoverlay")
	if _, err := os.Stat(mk); err != nil {
		if out, err := run(verifDir, goEnv(), "go1.26.8", "build", "-o", mk, "./tools/mkoverlay"); err != nil {
			return fmt.Errorf("build mkoverlay: %v\n%s", err, out)
		}
	}
	if !builtOv[v.ov] {
		args := append([]string{"-name", v.ov, "-repo", repoDir, "-verif", verifDir, "-out", filepath.Join(workDir, "ov")}, v.ovArg...)
		if out, err := run(verifDir, goEnv(), mk, args...); err != nil {
			return fmt.Errorf("mkoverlay: %v\n%s", err, out)
		}
		builtOv[v.ov] = true
	}
	// private copy of go.mod/go.sum so that /repo is never written
	for _, f := range []string{"go.mod", "go.sum"} {
		b, err := os.ReadFile(filepath.Join(repoDir, f))
		if err != nil {
			return err
		}
		if _, e := os.Stat(filepath.Join(verifDir, "tools", "extra.sum")); f == "go.mod" && e == nil {
			b = append(b, []byte("\nrequire github.com/anishathalye/porcupine v1.3.0\n")...)
		}
		if err := os.WriteFile(filepath.Join(workDir, f), b, 0o644); err != nil {
			return err
		}
	}
	if b, err := os.ReadFile(filepath.Join(verifDir, "tools", "extra.sum")); err == nil {
		f, _ := os.OpenFile(filepath.Join(workDir, "go.sum"), os.O_APPEND|os.O_WRONLY, 0o644)
		f.Write(b)
		f.Close()
	}
	args := []string{"test", "-c", "-vet=off", "-tags", "verif", "-overlay", filepath.Join(workDir, "ov", v.ov+".json"),
		"-modfile", filepath.Join(workDir, "go.mod"), "-o", filepath.Join(workDir, "bin", binary+".test")}
	if v.race {
		args = append(args, "-race")
	}
	args = append(args, v.pkg)
	out, err := run(repoDir, goEnv(), "go1.26.8", args...)
	if err != nil {
		return fmt.Errorf("build %s: %v\n%s", binary, err, out)
	}
	return nil
}

type workerOut struct {
	res    *vlib.Result
	stderr string
	err    error
	job    *vlib.Job
}

func knownClasses(prop string) []string {
	var out []string
	for _, k := range loadKnown() {
		if k.Status == "known" && k.Property == prop {
			out = append(out, k.Class)
		}
	}
	return out
}

func runWorker(binary string, job *vlib.Job, tag string, hardTimeout time.Duration) workerOut {
	if job.Tier != "replay" {
		job.Known = knownClasses(job.Property)
	}
	jobPath := filepath.Join(workDir, "jobs", tag+".job.json")
	job.Out = filepath.Join(workDir, "jobs", tag+".out.json")
	job.Journal = filepath.Join(workDir, "jobs", tag+".journal.json")
	job.Scratch = filepath.Join(scratchRoot(), tag)
	_ = os.MkdirAll(filepath.Dir(jobPath), 0o755)
	_ = os.Remove(job.Out)
	_ = os.Remove(job.Journal)
	b, _ := json.Marshal(job)
	_ = os.WriteFile(jobPath, b, 0o644)
	bin := filepath.Join(workDir, "bin", binary+".test")
	// ulimit -v guards against runaway memory (no cgroup limit in the sandbox)
	sh := fmt.Sprintf("ulimit -v 8000000; exec timeout -s KILL %d %s -test.run '^TestVerif$' -test.timeout 0", int(hardTimeout.Seconds()), bin)
	c := exec.Command("bash", "-c", sh)
	gmp := "1"
	if strings.HasSuffix(binary, ".race") {
		gmp = "4"
	}
	c.Env = append(os.Environ(), "VERIF_JOB="+jobPath, "GOMAXPROCS="+gmp, "GOGC=400", "GODEBUG=randautoseed=0")
	c.Dir = workDir
	out, err := c.CombinedOutput()
	_ = os.RemoveAll(job.Scratch)
	wo := workerOut{job: job, err: err}
	s := string(out)
	if len(s) > 8000 {
		s = s[:3000] + "\n...\n" + s[len(s)-5000:]
	}
	wo.stderr = s
	rb, rerr := os.ReadFile(job.Out)
	if rerr == nil {
		r := &vlib.Result{}
		if json.Unmarshal(rb, r) == nil {
			wo.res = r
		}
	}
	return wo
}

func scratchRoot() string {
	d := "/dev/shm"
	if st, err := os.Stat(d); err != nil || !st.IsDir() {
		d = os.TempDir()
	}
	return filepath.Join(d, "verif-scratch-"+strconv.Itoa(os.Getpid()))
}

func loadKnown() []knownFinding {
	var k struct {
		Findings []knownFinding `json:"findings"`
	}
	b, err := os.ReadFile(filepath.Join(verifDir, "known_findings.json"))
	if err == nil {
		_ = json.Unmarshal(b, &k)
	}
	return k.Findings
}

func main() {
	tier := flag.String("tier", "", "quick|thorough")
	replay := flag.String("replay", "", "replay file")
	only := flag.String("only", "", "run only stages whose scenario contains this substring (debugging)")
	flag.IntVar(&onlyStage, "stage", -1, "run only the stage with this index (debugging)")
	flag.Usage = func() { fmt.Fprintln(os.Stderr, "usage: vcheck <PROPERTY> --tier quick|thorough [--replay f]") }
	// allow the property id before the flags
	args := os.Args[1:]
	id := ""
	if len(args) > 0 && !strings.HasPrefix(args[0], "-") {
		id = args[0]
		args = args[1:]
	}
	_ = flag.CommandLine.Parse(args)
	if id == "" && flag.NArg() > 0 {
		id = flag.Arg(0)
	}
	if id == "prebuild" {
		for _, b := range []string{"badger.coarse", "badger.fine"} {
			if err := build(b); err != nil {
				fmt.Fprintln(os.Stderr, err)
				os.Exit(2)
			}
		}
		return
	}
	if id == "manifest" {
		writeManifest()
		return
	}
	if *tier == "" {
		*tier = os.Getenv("VERIF_TIER")
	}
	if *tier == "" {
		*tier = "quick"
	}
	seed := int64(0)
	if s := os.Getenv("VERIF_SEED"); s != "" {
		seed, _ = strconv.ParseInt(s, 10, 64)
	}
	plan, ok := plans(id, *tier)
	if !ok {
		fmt.Fprintf(os.Stderr, "no plan for property %q\n", id)
		os.Exit(2)
	}
	os.Exit(execute(plan, *tier, seed, *replay, *only))
}

func execute(plan *Plan, tier string, seed int64, replayFile, only string) int {
	start := time.Now()
	defer os.RemoveAll(scratchRoot())
	evPath := filepath.Join(evidenceDir, plan.ID+".json")
	_ = os.MkdirAll(filepath.Dir(evPath), 0o755)
	// build
	need := map[string]bool{}
	for _, st := range plan.Stages {
		need[st.Binary] = true
	}
	bins := []string{}
	for b := range need {
		bins = append(bins, b)
	}
	sort.Strings(bins)
	for _, b := range bins {
		if err := build(b); err != nil {
			fmt.Fprintf(os.Stderr, "BUILD FAILED (harness/machinery, not a property violation):\n%v\n", err)
			return 2
		}
	}
	if replayFile != "" {
		return doReplay(plan, replayFile)
	}
	total := &vlib.Result{Property: plan.ID}
	internal := []string{}
	var stageNotes []string
	boundDone := map[string]int{}
	for si, st := range plan.Stages {
		if only != "" && !strings.Contains(st.Scenario, only) {
			continue
		}
		if onlyStage >= 0 && si != onlyStage {
			continue
		}
		if st.Kind == "bfs" {
			stage, ints := runBFS(plan, st, si, tier, seed)
			internal = append(internal, ints...)
			for i := range stage.Violations {
				stage.Violations[i].Replay = tagStage(stage.Violations[i].Replay, si)
			}
			desc := fmt.Sprintf("%s bfs depth<=%d params=%v: states=%d transitions=%d capped=%v %s", st.Scenario, st.Depth, st.Params, stage.States, stage.Transitions, stage.Capped, stage.CapReason)
			stageNotes = append(stageNotes, desc)
			fmt.Println("stage:", desc)
			total.Merge(stage)
			if anyConfirmed(plan, stage.Violations) {
				break
			}
			continue
		}
		n := st.NShard
		if n <= 0 {
			n = 1
		}
		outs := make([]workerOut, n)
		var wg sync.WaitGroup
		sem := make(chan struct{}, 16)
		for sh := 0; sh < n; sh++ {
			wg.Add(1)
			go func(sh int) {
				defer wg.Done()
				sem <- struct{}{}
				defer func() { <-sem }()
				job := &vlib.Job{Property: plan.ID, Scenario: st.Scenario, Tier: tier, Seed: seed, Shard: sh, NShard: n,
					Bound: st.Bound, BudgetS: st.BudgetS, Params: st.Params}
				hard := time.Duration(st.BudgetS*2+120) * time.Second
				outs[sh] = runWorker(st.Binary, job, fmt.Sprintf("%s.s%d.w%d", plan.ID, si, sh), hard)
			}(sh)
		}
		wg.Wait()
		stage := &vlib.Result{}
		for sh, wo := range outs {
			if wo.res == nil {
				// worker died: replay the journalled case
				v, note := handleDeadWorker(plan, st, wo, fmt.Sprintf("%s.s%d.w%d", plan.ID, si, sh))
				if v != nil {
					stage.Violations = append(stage.Violations, *v)
				} else {
					internal = append(internal, note)
				}
				continue
			}
			if wo.res.Internal != "" {
				internal = append(internal, fmt.Sprintf("%s shard %d: %s", st.Scenario, sh, wo.res.Internal))
			}
			stage.Merge(wo.res)
		}
		for i := range stage.Violations {
			stage.Violations[i].Replay = tagStage(stage.Violations[i].Replay, si)
		}
		desc := fmt.Sprintf("%s bound=%d shards=%d: executions=%d transitions=%d capped=%v", st.Scenario, st.Bound, n, stage.Evaluations, stage.Transitions, stage.Capped)
		stageNotes = append(stageNotes, desc)
		fmt.Println("stage:", desc)
		if !stage.Capped {
			if b, ok := boundDone[st.Scenario]; !ok || st.Bound > b {
				boundDone[st.Scenario] = st.Bound
			}
		}
		total.Merge(stage)
		if anyConfirmed(plan, stage.Violations) {
			break // first (fewest-deviation) counterexample is the one to report
		}
	}
	// classify violations
	known := loadKnown()
	var real []vlib.Violation
	knownHit := map[string]bool{}
	for _, v := range total.Violations {
		matched := false
		for _, k := range known {
			if k.Status == "known" && k.Property == plan.ID && k.Class == v.Class {
				matched = true
				if !knownHit[k.Class] {
					knownHit[k.Class] = true
					fmt.Printf("KNOWN-FINDING: property=%s %s\n", plan.ID, k.What)
				}
			}
		}
		if !matched {
			real = append(real, v)
		}
	}
	// confirm real violations by replaying them in fresh workers
	confirmed := []vlib.Violation{}
	replayPaths := []string{}
	seenClass := map[string]bool{}
	for _, v := range real {
		if seenClass[v.Class] && len(confirmed) >= 3 {
			continue
		}
		ok, note := confirmOnce(plan, v)
		if !ok {
			internal = append(internal, "violation did not reproduce: "+note+" :: "+firstLine(v.Desc))
			continue
		}
		seenClass[v.Class] = true
		p := filepath.Join(evidenceDir, "replay", fmt.Sprintf("%s.%d.json", plan.ID, len(confirmed)))
		_ = os.MkdirAll(filepath.Dir(p), 0o755)
		b, _ := json.MarshalIndent(v, "", " ")
		_ = os.WriteFile(p, b, 0o644)
		confirmed = append(confirmed, v)
		replayPaths = append(replayPaths, p)
	}
	writeEvidence(plan, tier, seed, total, stageNotes, boundDone, internal, len(confirmed), knownHit, time.Since(start).Seconds(), evPath)
	for i, v := range confirmed {
		fmt.Printf("VIOLATION property=%s replay=%s\n", plan.ID, replayPaths[i])
		fmt.Printf("  class=%s\n  %s\n", v.Class, indent(v.Desc))
		if v.Trace != "" {
			fmt.Printf("  schedule: %s\n", v.Trace)
		}
	}
	if len(confirmed) > 0 {
		return 1
	}
	if len(internal) > 0 {
		for _, s := range internal {
			fmt.Fprintln(os.Stderr, "INTERNAL:", s)
		}
		if total.Evaluations == 0 {
			return 2
		}
	}
	fmt.Printf("OK property=%s tier=%s evaluations=%d distinct=%d capped=%v wall=%.1fs\n", plan.ID, tier, total.Evaluations, total.DistinctCount(), total.Capped, time.Since(start).Seconds())
	return 0
}

// confirmOnce is confirm with its verdict remembered per replay payload.
var confirmMemo = map[string][2]string{}

func confirmOnce(plan *Plan, v vlib.Violation) (bool, string) {
	k := v.Class + "|" + string(v.Replay)
	if m, ok := confirmMemo[k]; ok {
		return m[0] == "y", m[1]
	}
	ok, note := confirm(plan, v)
	if ok {
		confirmMemo[k] = [2]string{"y", note}
	} else {
		confirmMemo[k] = [2]string{"n", note}
	}
	return ok, note
}

// anyConfirmed: does the stage hold a violation that is not a listed known finding and that
// reproduces in fresh workers?  Only such a violation ends the plan early; a candidate that does
// not reproduce is reported as an internal error at the end and the remaining stages still run.
func anyConfirmed(plan *Plan, vs []vlib.Violation) bool {
	known := knownClasses(plan.ID)
	for _, v := range vs {
		k := false
		for _, c := range known {
			if c == v.Class {
				k = true
			}
		}
		if k {
			continue
		}
		if ok, _ := confirmOnce(plan, v); ok {
			return true
		}
	}
	return false
}

func hasUnknown(prop string, vs []vlib.Violation) bool {
	known := knownClasses(prop)
	for _, v := range vs {
		k := false
		for _, c := range known {
			if c == v.Class {
				k = true
			}
		}
		if !k {
			return true
		}
	}
	return false
}

func firstLine(s string) string {
	if i := strings.IndexByte(s, '\n'); i >= 0 {
		return s[:i]
	}
	return s
}

func indent(s string) string {
	if len(s) > 4000 {
		s = s[:4000] + "..."
	}
	return strings.ReplaceAll(s, "\n", "\n  ")
}

// stageFor finds the stage of a scenario (for replays).
func stageOf(plan *Plan, raw json.RawMessage) *Stage {
	var x struct {
		Scenario string `json:"scenario"`
		Stage    *int   `json:"_stage"`
	}
	_ = json.Unmarshal(raw, &x)
	if x.Stage != nil && *x.Stage >= 0 && *x.Stage < len(plan.Stages) && plan.Stages[*x.Stage].Scenario == x.Scenario {
		return &plan.Stages[*x.Stage]
	}
	return stageFor(plan, x.Scenario)
}

// tagStage records the stage index inside a replay payload so that a replay runs with the
// parameters of the stage that found it.
func tagStage(raw json.RawMessage, si int) json.RawMessage {
	var m map[string]any
	if json.Unmarshal(raw, &m) != nil || m == nil {
		return raw
	}
	m["_stage"] = si
	b, _ := json.Marshal(m)
	return b
}

func stageFor(plan *Plan, scenario string) *Stage {
	for i := range plan.Stages {
		if plan.Stages[i].Scenario == scenario {
			return &plan.Stages[i]
		}
	}
	return nil
}

func replayScenario(raw json.RawMessage) string {
	var x struct {
		Scenario string `json:"scenario"`
	}
	_ = json.Unmarshal(raw, &x)
	return x.Scenario
}

// confirm replays a violation in fresh worker processes; it must fail the same way each time.
func confirm(plan *Plan, v vlib.Violation) (bool, string) {
	sc := replayScenario(v.Replay)
	st := stageOf(plan, v.Replay)
	if st == nil {
		return false, "no stage for scenario " + sc
	}
	for i := 0; i < 3; i++ {
		job := &vlib.Job{Property: plan.ID, Scenario: sc, Tier: "replay", NShard: 1, Bound: st.Bound, Params: st.Params, Replay: v.Replay}
		wo := runWorker(st.Binary, job, fmt.Sprintf("%s.confirm%d", plan.ID, i), 180*time.Second)
		if wo.res == nil {
			if strings.HasPrefix(v.Class, "fatal-exit") {
				if c := fatalClass(wo.stderr); c != v.Class {
					return false, fmt.Sprintf("replay died with class %s, want %s", c, v.Class)
				}
				continue // dying again in the same way is the reproduction
			}
			return false, "replay worker died: " + tail(wo.stderr, 400)
		}
		if wo.res.Internal != "" {
			return false, wo.res.Internal
		}
		if len(wo.res.Violations) == 0 {
			return false, fmt.Sprintf("replay %d did not violate", i)
		}
		if wo.res.Violations[0].Class != v.Class {
			return false, fmt.Sprintf("replay %d gave class %s, want %s", i, wo.res.Violations[0].Class, v.Class)
		}
	}
	return true, ""
}

func tail(s string, n int) string {
	if len(s) > n {
		return s[len(s)-n:]
	}
	return s
}

// handleDeadWorker: a worker that exits without a result either hit a fatal exit of the code
// under test (log.Fatalf / runtime fatal error) on the journalled case, or the harness broke.
func handleDeadWorker(plan *Plan, st Stage, wo workerOut, tag string) (*vlib.Violation, string) {
	jb, err := os.ReadFile(wo.job.Journal)
	if err != nil {
		return nil, fmt.Sprintf("%s: worker died without journal: %s", st.Scenario, tail(wo.stderr, 1500))
	}
	died := 0
	var last string
	for i := 0; i < 3; i++ {
		job := &vlib.Job{Property: plan.ID, Scenario: st.Scenario, Tier: "replay", NShard: 1, Bound: st.Bound, Params: st.Params, Replay: jb}
		w := runWorker(st.Binary, job, fmt.Sprintf("%s.dead%d", tag, i), 180*time.Second)
		if w.res == nil {
			died++
			last = w.stderr
		} else if len(w.res.Violations) > 0 {
			v := w.res.Violations[0]
			return &v, ""
		}
	}
	if died == 3 {
		return &vlib.Violation{Class: fatalClass(last), Desc: "process dies on this case every time:\n" + tail(last, 3000), Replay: jb}, ""
	}
	return nil, fmt.Sprintf("%s: worker died (%v) but the journalled case does not reproduce it: %s", st.Scenario, wo.err, tail(wo.stderr, 1500))
}

// fatalClass derives a failure class from the output of a worker that died: the first panic /
// fatal error / assertion line, with digits and addresses removed.
func fatalClass(out string) string {
	for _, l := range strings.Split(out, "\n") {
		t := strings.TrimSpace(l)
		for _, p := range []string{"panic: ", "fatal error: "} {
			if strings.HasPrefix(t, p) {
				return "fatal-exit/" + normClass(strings.TrimPrefix(t, p))
			}
		}
		if strings.Contains(t, "Assert failed") {
			return "fatal-exit/Assert failed"
		}
	}
	return "fatal-exit"
}

func normClass(s string) string {
	var b strings.Builder
	for _, r := range s {
		if r >= '0' && r <= '9' {
			continue
		}
		b.WriteRune(r)
	}
	out := strings.TrimSpace(b.String())
	if i := strings.Index(out, " [recovered"); i >= 0 {
		out = out[:i]
	}
	if len(out) > 60 {
		out = out[:60]
	}
	return out
}

func doReplay(plan *Plan, file string) int {
	b, err := os.ReadFile(file)
	if err != nil {
		fmt.Fprintln(os.Stderr, err)
		return 2
	}
	var v vlib.Violation
	if err := json.Unmarshal(b, &v); err != nil || len(v.Replay) == 0 {
		v.Replay = b
	}
	sc := replayScenario(v.Replay)
	st := stageOf(plan, v.Replay)
	if st == nil {
		fmt.Fprintln(os.Stderr, "no stage for scenario", sc)
		return 2
	}
	job := &vlib.Job{Property: plan.ID, Scenario: sc, Tier: "replay", NShard: 1, Bound: st.Bound, Params: st.Params, Replay: v.Replay}
	wo := runWorker(st.Binary, job, plan.ID+".replay", 300*time.Second)
	if wo.res == nil {
		fmt.Printf("replay: worker died\n%s\n", tail(wo.stderr, 4000))
		fmt.Printf("VIOLATION property=%s replay=%s\n", plan.ID, file)
		return 1
	}
	for _, n := range wo.res.Notes {
		fmt.Println(n)
	}
	if len(wo.res.Violations) > 0 {
		x := wo.res.Violations[0]
		fmt.Printf("VIOLATION property=%s replay=%s\n  class=%s\n  %s\n", plan.ID, file, x.Class, indent(x.Desc))
		return 1
	}
	fmt.Println("replay: no violation")
	return 0
}

func writeEvidence(plan *Plan, tier string, seed int64, total *vlib.Result, stages []string, boundDone map[string]int,
	internal []string, nviol int, knownHit map[string]bool, wall float64, path string) {
	cov := map[string]any{}
	distinct := total.DistinctCount()
	samples := total.Samples
	if len(samples) == 0 {
		samples = []any{"(no case was run)"}
	}
	cov["evaluations"] = total.Evaluations
	cov["distinct_nontrivial"] = distinct
	cov["rule"] = plan.Rule
	cov["samples"] = samples
	cov["exhaustive"] = !total.Capped && len(internal) == 0 && total.Evaluations > 0
	if total.Capped {
		cov["cap"] = total.CapReason
	}
	cov["stages"] = stages
	if len(boundDone) > 0 {
		cov["bound_completed"] = boundDone
	}
	if plan.Level == "model_checking" {
		st := total.States
		if st == 0 {
			st = total.Evaluations
		}
		tr := total.Transitions
		if tr == 0 {
			tr = total.Evaluations
		}
		cov["states"] = st
		cov["transitions"] = tr
		// every state/schedule is an execution of the real implementation
		cov["traces_validated_against_impl"] = total.Evaluations
	}
	if len(total.Extra) > 0 {
		cov["counters"] = total.Extra
	}
	if d := total.TopDistinct(12); len(d) > 0 {
		cov["distinct_outcomes_sample"] = d
	}
	if len(internal) > 0 {
		cov["internal_errors"] = internal
	}
	if len(knownHit) > 0 {
		ks := []string{}
		for k := range knownHit {
			ks = append(ks, k)
		}
		sort.Strings(ks)
		cov["known_findings_hit"] = ks
	}
	ev := map[string]any{
		"property_id": plan.ID,
		"tier":        tier,
		"seed":        seed,
		"level":       plan.Level,
		"coverage":    cov,
		"assumptions": plan.Assume,
		"wall_s":      wall,
		"violations":  nviol,
	}
	b, _ := json.MarshalIndent(ev, "", " ")
	_ = os.WriteFile(path, b, 0o644)
}
