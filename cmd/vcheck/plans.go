package main

// plans: for every claimed property, what is enumerated in each tier.

func sched(scn string, bound, nshard int, budget float64, params map[string]any) Stage {
	return Stage{Binary: "badger.coarse", Scenario: scn, Bound: bound, NShard: nshard, BudgetS: budget, Params: params}
}

var commonAssume = []string{
	"sequentially consistent interleavings of the hooked synchronisation points; data races are looked for separately",
	"virtual time (testing/synctest bubble clock)",
	"go1.26.8 toolchain; sync replaced by a channel-based shim with the same blocking semantics",
}

func plans(id, tier string) (*Plan, bool) {
	q := tier != "thorough"
	switch id {
	case "C03":
		p := &Plan{ID: id, Level: "model_checking", Engine: "E-sched",
			Text: "Every interleaving (up to the stated preemption bound, at the hooked points of the commit pipeline) of concurrent Commit / CommitWith / NewTransaction on the real DB is executed and checked: distinct commit timestamps consistent with real-time order, all-or-nothing visibility per reader, acknowledged commits visible to later readers, failed commits invisible.",
			Note: "Interleavings are explored at the granularity of the enabled hook points under sequential consistency; small harness (2-3 committers, 2 readers, 3 keys).",
			Technique: "stateless model checking of the real commit pipeline (controlled scheduler, preemption-bounded DFS)",
			Rule:   "every schedule of the harness threads over the enabled points with at most <bound> preemptions; distinct = distinct (commit-ts assignment, reader read-ts) outcomes",
			Assume: commonAssume}
		if q {
			p.Stages = []Stage{
				sched("c03a", 0, 1, 20, nil),
				sched("c03a", 1, 16, 25, nil),
				sched("c03a", 2, 16, 30, nil),
			}
		} else {
			p.Stages = []Stage{
				sched("c03a", 0, 1, 30, nil),
				sched("c03a", 1, 16, 60, nil),
				sched("c03a", 2, 16, 300, nil),
				sched("c03a", 3, 16, 300, nil),
			}
		}
		return p, true
	}
	return nil, false
}
