package main

import "strings"

// plans: for every claimed property, what is enumerated in each tier.

func sched(scn string, bound, nshard int, budget float64, params map[string]any) Stage {
	return Stage{Binary: "badger.coarse", Scenario: scn, Bound: bound, NShard: nshard, BudgetS: budget, Params: params}
}

func bfs(scn string, depth int, budget float64, params map[string]any, seeds ...[]string) Stage {
	return Stage{Binary: "badger.coarse", Kind: "bfs", Scenario: scn, Depth: depth, NShard: 16, BudgetS: budget, Params: params, Seeds: seeds, MaxFrontier: 60000}
}

func en(scn string, nshard int, budget float64, params map[string]any) Stage {
	return Stage{Binary: "badger.coarse", Scenario: scn, NShard: nshard, BudgetS: budget, Params: params}
}

func seq(s string) []string {
	if s == "" {
		return []string{}
	}
	return strings.Fields(s)
}

func prm(kv ...any) map[string]any {
	m := map[string]any{}
	for i := 0; i+1 < len(kv); i += 2 {
		m[kv[i].(string)] = kv[i+1]
	}
	return m
}

var commonAssume = []string{
	"sequentially consistent interleavings of the hooked synchronisation points; data races are looked for separately",
	"virtual time (testing/synctest bubble clock)",
	"go1.26.8 toolchain; sync replaced by a channel-based shim with the same blocking semantics",
}

var planTable = map[string]func(q bool) *Plan{}

func plans(id, tier string) (*Plan, bool) {
	f, ok := planTable[id]
	if !ok {
		return nil, false
	}
	p := f(tier != "thorough")
	p.ID = id
	if p.Assume == nil {
		p.Assume = commonAssume
	}
	// The stage budgets are upper bounds (a stage that exhausts its space ends earlier).  Keep the sum
	// for one check within 25 minutes (thorough) / 4 minutes (quick) by scaling all of them down.
	limit := 240.0
	if tier == "thorough" {
		limit = 1500.0
	}
	total := 0.0
	for _, st := range p.Stages {
		total += st.BudgetS
	}
	if total > limit {
		for i := range p.Stages {
			p.Stages[i].BudgetS *= limit / total
		}
	}
	return p, true
}

func init() {
	planTable["C03"] = func(q bool) *Plan {
		p := &Plan{Level: "model_checking", Engine: "E-sched",
			Text:      "Every interleaving (up to the stated preemption bound, at the hooked points of the commit pipeline) of concurrent Commit / CommitWith / NewTransaction on the real DB is executed and checked: distinct commit timestamps consistent with real-time order, all-or-nothing visibility per reader, acknowledged commits visible to later readers, failed commits invisible. Two committers racing DB.Close: after re-opening, a commit that returned nil is completely present and a commit that was rejected (writes blocked / database closed) left no trace.",
			Note:      "Interleavings are explored at the granularity of the enabled hook points under sequential consistency; small harness (2-3 committers, 2 readers, 3 keys).",
			Technique: "stateless model checking of the real commit pipeline (controlled scheduler, preemption-bounded DFS)",
			Rule:      "every schedule of the harness threads over the enabled points with at most <bound> preemptions; distinct = distinct (commit-ts assignment, reader read-ts) outcomes"}
		if q {
			p.Stages = []Stage{sched("c03a", 0, 1, 20, nil), sched("c03a", 1, 16, 25, nil), sched("c03a", 2, 16, 30, nil), sched("c03a", 3, 16, 30, nil), sched("c03close", 2, 16, 40, nil), sched("c01flush", 2, 16, 20, prm("variant", "flush")),
				bfs("lsm", 5, 40, prm("oracle", "c12", "mode", "normal", "keys", 2, "multi", true, "l0_tables", 1, "ops", "P Sa Da F C0 C1 O X"))}
		} else {
			p.Stages = []Stage{sched("c03a", 0, 1, 30, nil), sched("c03a", 1, 16, 60, nil), sched("c03a", 2, 16, 300, nil), sched("c03a", 3, 16, 300, nil), sched("c03close", 3, 16, 600, nil),
				bfs("lsm", 7, 600, prm("oracle", "c12", "mode", "normal", "keys", 2, "multi", true, "l0_tables", 1, "ops", "P Sa Da F C0 C1 O X"))}
		}
		return p
	}
	planTable["C12"] = func(q bool) *Plan {
		p := &Plan{Level: "model_checking", Engine: "E-seq",
			Text:      "Breadth-first search over operation sequences (writes, deletes, flush, every compaction the production picker offers to compactor 0 and 1, table ageing, discard-watermark moves) on the real DB; after every transition every key is read by Get and both iterator directions at every timestamp at or above the discard watermark and compared with an MVCC reference model.",
			Note:      "Small alphabets (2-3 keys), tiny table/level sizes so that multi-level shapes are reached in a few steps; states deduplicated by canonical LSM shape.",
			Technique: "explicit-state BFS over operation sequences executed on the implementation, reference-model oracle",
			Rule:      "BFS states = canonical LSM shapes (per level: tables with their (key, version-rank, meta) lists and age class; memtable; watermark position); transitions = operations applied to the real DB"}
		seeds := [][]string{seq("Sa F Sb F"), seq("Sa F Sa F"), seq("Sa F Sa F C0 Sb F Da F"), seq("Sa F Sb F Sa F Sb F A"), seq("Sa Sb F Sa Sb F C0 C0 Sa F Sb F C0")}
		// L0->L0 shapes: a 32 KiB memtable, tables fattened by bulk transactions (U = 10 filler keys x
		// 400 bytes); the base level is over its target (so L0's adjusted score is < 1 and compactor 0
		// merges L0 into itself); the first merge leaves a "big" L0 table (>= 2 x MemTableSize) holding
		// key a, which later L0->L0 merges exclude
		l0l0 := prm("oracle", "c12", "keys", 1, "bulk", true, "mem_table_size", 32<<10, "value_threshold", 1024, "l0_tables", 2, "max_levels", 3, "ops", "Sa Da U F C0 C1 T A")
		fat := "U U U U F "      // a 16 KiB L0 table of filler keys f0..f9
		deep := "Ux Ux Ux Ux F " // the same with keys x0..x9 (disjoint from a and f*, so deeper levels do not overlap L0)
		// last level 32 KiB, then 48 KiB into the level above it (score 3), then four aged L0 tables, the first holding a
		l0a := deep + deep + "C0 " + deep + deep + deep + "C0 Sa " + fat + fat + fat + fat + "A C0"
		l0seeds := [][]string{seq(l0a), seq(l0a + " Da " + fat + fat + fat + fat + "A T")}
		if q {
			p.Stages = []Stage{sched("c01flush", 2, 16, 20, prm("variant", "compact")), bfs("lsm", 4, 40, prm("oracle", "c12")), bfs("lsm", 5, 75, prm("oracle", "c12", "ops", "Sa Sb Da Db F C0 C1 T"), seeds[:3]...),
				// three L0 tables, the newest overlapping both older ones, which are disjoint from each other (the picker must take an oldest-first prefix of L0)
				bfs("lsm", 5, 30, prm("oracle", "c12", "ops", "Sa Db F T C0"), seq("Sa F Sb F"), seq("Sb F Sa F")),
				// two versions kept: a delete marker dropped at the bottom must take the older versions with it
				bfs("lsm", 4, 30, prm("oracle", "c12", "keys", 1, "nvk", 2, "l0_tables", 1, "ops", "Sa Da F C0 T"), seq("Sa Sa Da"), seq("Sa Da Sa")),
				// five two-key tables in the base level: a compaction whose upper table spans four or more of them is split into sub-compactions at table boundaries
				bfs("lsm", 4, 40, prm("oracle", "c12", "mode", "normal", "keyset", "ten", "keys", 10, "big", true, "value_threshold", 1024, "big_size", 400, "base_level_size", 8192, "l0_tables", 1, "snapshots", false, "ops", "Sk0 Dk6 Dk7 Dk9 F C0"), seq("Bk0 Bk1 Bk2 Bk3 Bk4 Bk5 Bk6 Bk7 Bk8 Bk9 F C0")),
				// the last level shrinks (its filler keys are deleted and compacted away) while the level above it still holds a key
				bfs("lsm", 4, 40, prm("oracle", "c12", "mode", "normal", "keys", 1, "bulk", true, "value_threshold", 1024, "l0_tables", 1, "snapshots", false, "ops", "Sa Da F C0 C1 Nx"), seq("Ux F C0 Nx F C0 Sa F C0 U F C0")), bfs("lsm", 3, 30, prm("oracle", "c12"), seeds[3:]...), bfs("lsm", 2, 40, l0l0, l0seeds...)}
		} else {
			p.Stages = []Stage{sched("c01flush", 3, 16, 300, prm("variant", "compact")), sched("c01flush", 2, 16, 300, prm("variant", "compact", "inmemory", false)), bfs("lsm", 6, 600, prm("oracle", "c12")), bfs("lsm", 7, 900, prm("oracle", "c12"), seeds...), bfs("lsm", 7, 300, prm("oracle", "c12", "ops", "Sa Db Da Sb F T C0"), seq("Sa F Sb F"), seq("Sb F Sa F")),
				bfs("lsm", 8, 600, prm("oracle", "c12", "mode", "normal", "keys", 1, "bulk", true, "value_threshold", 1024, "l0_tables", 1, "snapshots", false, "ops", "Sa Da F C0 C1 Nx Ux"), seq("Ux F C0 Sa F C0")), bfs("lsm", 5, 600, prm("oracle", "c12", "keys", 3, "nvk", 2), seeds...), bfs("lsm", 5, 900, l0l0, l0seeds...)}
		}
		return p
	}

	lsmPlan := func(text, rule string, quick, thorough []Stage) func(q bool) *Plan {
		return func(q bool) *Plan {
			p := &Plan{Level: "model_checking", Engine: "E-seq", Text: text,
				Note:      "Small alphabets (1-3 keys), tiny table/level sizes so that multi-level shapes are reached in a few steps; states deduplicated by canonical LSM shape; a fresh real DB per transition (replay from scratch).",
				Technique: "explicit-state BFS over operation sequences executed on the implementation, reference-model oracle",
				Rule:      rule}
			if q {
				p.Stages = quick
			} else {
				p.Stages = thorough
			}
			return p
		}
	}
	stateRule := "BFS states = canonical LSM shapes (per level: tables with their (key, version, meta) lists and age class; memtable; watermark position); transitions = operations applied to the real DB; every state is non-trivial and distinct by construction"
	planTable["C13"] = lsmPlan("Same state space as C12 with discard-earlier-versions entries added and NumVersionsToKeep 1, 2 and unlimited; after every transition the AllVersions dump must contain every version the retention rule promises (computed by a reference model from the write history and the current watermark) and nothing that was never written.",
		stateRule,
		[]Stage{bfs("lsm", 5, 40, prm("oracle", "c13", "nvk", 1, "keys", 1)), bfs("lsm", 5, 40, prm("oracle", "c13", "nvk", 2, "keys", 1)),
			// seeds with versions on both sides of the watermark (the version budget must count only versions at or below it)
			bfs("lsm", 3, 40, prm("oracle", "c13", "nvk", 2, "keys", 1), seq("Sa Sa T"), seq("Sa Sa Sa T Sa"), seq("Sa F Sa F T"), seq("Sa Ea Sa T Sa")),
			// merge-operator entries (values in the value log, rewritten by value-log GC) are never dropped by a compaction: the fold over all adds stays complete
			bfs("merge", 7, 40, prm("l0_tables", 1, "keys", 1, "gc", true, "big", true, "vlog_max_entries", 1, "ops", "MB F G C0")),
			// normal mode: the watermark is the read watermark, which must not pass a read transaction that is still open
			bfs("lsm", 5, 30, prm("oracle", "c13", "mode", "normal", "nvk", 1, "keys", 1, "l0_tables", 1, "ops", "Sa Da F C0 O X")),
			// the watermark a compaction uses must be the real one even while a value-log GC rewrite is in flight
			sched("c15gc", 2, 16, 30, prm("variant", "snapshot"))},
		[]Stage{bfs("lsm", 6, 300, prm("oracle", "c13", "nvk", 1, "keys", 1)), bfs("lsm", 6, 300, prm("oracle", "c13", "nvk", 2, "keys", 1)), bfs("lsm", 5, 300, prm("oracle", "c13", "nvk", 1000, "keys", 2)),
			bfs("lsm", 5, 600, prm("oracle", "c13", "nvk", 2, "keys", 1), seq("Sa Sa T"), seq("Sa Sa Sa T Sa"), seq("Sa F Sa F T"), seq("Sa Ea Sa T Sa")),
			bfs("lsm", 4, 300, prm("oracle", "c13", "nvk", 3, "keys", 2), seq("Sa Sa Sb Sa T Sa"), seq("Sa Sb F Sa Sb F T"))})
	planTable["C14"] = lsmPlan("Same state space as C12 including close/re-open transitions; after every transition: levels >= 1 sorted with disjoint ranges, no user key split across two tables of a level, table ids unique, production validate() passes, in-memory levels == MANIFEST == .sst files on disk; Open after any history succeeds. The same structural oracle runs after DropPrefix / DropAll transitions, on every recovered crash image of short histories, and after every StreamWriter load of the C26 enumeration.",
		stateRule,
		[]Stage{bfs("lsm", 4, 60, prm("oracle", "c14", "keys", 3, "reopen", true)),
			// drops: DropPrefix over a deeper level holding one table per key pair (rewrites of non-adjacent tables must not overlap the table between them)
			bfs("lsm", 2, 40, prm("oracle", "c29", "mode", "normal", "keyset", "drop", "keys", 6, "drops", true, "reopen", true, "snapshots", false, "l0_tables", 1, "value_threshold", 1024, "big_size", 400, "ops", "Sp1a Sq F C0 Yp1 Yp1,q Yp1a,qq Yp1a,p1 V R"), seq("Bp1a Bp1b Bp2a Bp2b Bq Bqq F C0")),
			// many retained versions of one key, more than a table holds: an output table must not be cut between two versions of a key
			bfs("lsm", 3, 30, prm("oracle", "c14", "keys", 2, "nvk", 100, "big", true, "value_threshold", 1024, "big_size", 400, "l0_tables", 1, "ops", "Ba Bb F C0"), seq("Ba Ba Ba Ba Ba"), seq("Ba Ba Ba Bb Ba Ba F C0 Ba Ba")),
			// crash-interrupted histories and stream-writer loads: the recovered / loaded tree must be well formed too
			en("crash08", 16, 40, prm("oracle", "c14", "len", 3, "alphabet", "T2 WB F C DP")), en("c26sw", 16, 30, nil)},
		[]Stage{bfs("lsm", 6, 600, prm("oracle", "c14", "keys", 3, "reopen", true)),
			bfs("lsm", 4, 600, prm("oracle", "c29", "mode", "normal", "keyset", "drop", "keys", 6, "drops", true, "reopen", true, "snapshots", false, "l0_tables", 1, "value_threshold", 1024, "big_size", 400, "ops", "Sp1a Sq Dp1a F C0 C1 Yp1 Yp1,q Yp1a,qq Yp1a,p1 Yp V R"), seq("Bp1a Bp1b Bp2a Bp2b Bq Bqq F C0"))})
	planTable["C36"] = lsmPlan("Managed-mode histories with caller-chosen, non-monotonic commit timestamps (CommitAt and per-entry SetEntryAt through a managed write batch), deletes at chosen timestamps, discard-timestamp moves, flushes and compactions (once with a level-0 trigger of 3 tables, once with a trigger of 1 so that a later commit at a LOWER timestamp lands in a level above the newer version); after every transition reads at every timestamp >= the discard timestamp equal the reference model and Item.Version equals the caller's timestamp. Write batches mixing explicit versions with the batch timestamp (every sequence of up to 3 / 5 operations), followed by a later commit: reads at every timestamp agree with the model on the live database and on a crash image re-opened in managed mode (the chosen timestamps survive WAL replay).",
		stateRule,
		[]Stage{bfs("lsm", 5, 60, prm("oracle", "c36", "keys", 1, "managed_ts", true)), bfs("lsm", 5, 60, prm("oracle", "c36", "keys", 1, "managed_ts", true, "l0_tables", 1)), en("c36crash", 16, 40, prm("len", 3))},
		[]Stage{bfs("lsm", 6, 600, prm("oracle", "c36", "keys", 1, "managed_ts", true)), bfs("lsm", 6, 600, prm("oracle", "c36", "keys", 1, "managed_ts", true, "l0_tables", 1)), en("c36crash", 16, 600, prm("len", 5))})

	enumPlan := func(level, text, note, rule string, quick, thorough []Stage) func(q bool) *Plan {
		return func(q bool) *Plan {
			p := &Plan{Level: level, Engine: "E-enum", Text: text, Note: note,
				Technique: "bounded-exhaustive enumeration of inputs over boundary alphabets against a reference model, run on the real functions",
				Rule:      rule,
				Assume:    []string{"finite input alphabets chosen from the shortcuts visible in the code (varint boundaries, 0x00/0xFF bytes, prefix pairs, block boundaries)"}}
			if q {
				p.Stages = quick
			} else {
				p.Stages = thorough
			}
			return p
		}
	}
	planTable["C20"] = enumPlan("exploration",
		"All byte strings of length 1-3 (quick) / 1-4 (thorough) over {00,01,7f,80,ff} plus limit-length keys, crossed with 10 boundary versions: KeyWithTs/ParseKey/ParseTs round-trip, CompareKeys and SameKey on ALL ordered pairs against (user key ascending, version descending); header Encode/Decode/DecodeFrom, ValueStruct Encode/EncodeTo/Decode/EncodedSize and valuePointer Encode/Decode on all tuples of boundary field values.",
		"Finite alphabets; exhaustive within them (exhaustive:true when the nest completes).",
		"nested enumeration; every case is a distinct input tuple",
		[]Stage{en("c20keys", 16, 60, prm("maxlen", 3)), en("c20hdr", 16, 60, nil)},
		[]Stage{en("c20keys", 16, 600, prm("maxlen", 4)), en("c20hdr", 16, 300, nil)})
	planTable["C19"] = enumPlan("exploration",
		"Arithmetic level: for every bitsPerKey in 0..40 plus {64,100,1000} (covers every probe count k in 1..30, hence every BloomFalsePositive in (0,1)) and set sizes 1,2,3,7,64, every boundary-pattern hash (thorough: ALL 2^32 hash values for single-member sets at bitsPerKey 1,10,40) is added and must be reported by MayContain. End to end: every key of every table built by the SSTable enumeration, with bloom filters on, is found by DoesNotHave/Get.",
		"Hash patterns are bit-boundary values in the quick tier; complete over 32-bit hashes only in the thorough tier.",
		"nested enumeration over (bitsPerKey, set size, member hash)",
		[]Stage{en("c19bloom", 16, 60, nil), en("c18table", 16, 40, prm("bloom_only", true))},
		[]Stage{en("c19bloom", 16, 900, prm("full32", true)), en("c18table", 16, 300, prm("bloom_only", true, "full_grid", true))})

	planTable["C04"] = enumPlan("exploration",
		"Every sequence of up to 3 (quick) / 4 (thorough) pending writes out of 25 (Set, Set with an empty value, Delete, SetEntry with user meta and a future expiry, SetEntry with a past expiry; over keys {a, a\\x00, ab, b, \\xff}) inside a read-write transaction on top of each of 4 committed snapshots (empty; values in a deeper level / L0 / memtable with a tombstone; two versions of every key; tombstones over deeper values, value-log values, newest commit exactly at the read timestamp). After the sequence: Get of every key (Value and ValueCopy, user meta, expiry, version) and iterators in both directions x AllVersions x Prefix {none,a,ab} x SinceTs {0, readTs-1, readTs}, from Rewind and from Seek to every key and 4 probes, equal the reference overlay (pending entry shadows the snapshot at version readTs; deletion and expiry hide the key). Every iterator created before a later write is walked at the end and must not contain that write; a transaction begun before and one begun after the writes never see them.",
		"Normal-mode on-disk DB; the transaction is discarded after each case so the snapshot is shared.",
		"nested enumeration, shortest sequences first; distinct = distinct (snapshot, write sequence)",
		[]Stage{en("c04ryow", 16, 90, prm("len", 3))},
		[]Stage{en("c04ryow", 16, 1500, prm("len", 4))})

	planTable["C05"] = enumPlan("exploration",
		"Databases: every subset of <= 2 (quick; plus 4 prefix-chain triples) / <= 3 (thorough) keys of the universe {a, a\\x00, a\\xff, ab, b, \\xff\\xff} x one of 5 version histories per key (v | v v' | v del | del v | v del v') x every placement of the global write order into 4 storage layers (a deeper level with several small tables, two L0 tables, the memtable; quick: cut points from a 4-value grid, thorough: every cut), inline and value-log values, bloom filters on, plus the internal end-of-transaction keys. Per database: direction x AllVersions x InternalAccess x Prefix {none,a,ab,b,a\\xff} x 6 (readTs, SinceTs) pairs, prefetch mode rotating over {off, size 0/1/2/100}: Rewind and Seek to every universe key and 9 gap probes (12 with internal access) walked to the end, Rewind after Seek, NewKeyIterator for every universe key, Valid/ValidForPrefix agreement; each item's key, version, value (Value and ValueCopy), user meta and deleted flag compared with a sorted-list reference model.",
		"Managed-mode on-disk DB so that versions and read timestamps are chosen; seeks outside the iterator's own prefix are not compared (unspecified).",
		"nested enumeration; distinct = distinct (key subset, histories, layer cuts) databases; counters: databases, walks",
		[]Stage{en("c05iter", 16, 160, prm("max_keys", 2))},
		[]Stage{en("c05iter", 16, 1500, prm("max_keys", 3, "all_cuts", true))})

	planTable["C06"] = func(q bool) *Plan {
		p := &Plan{Level: "model_checking", Engine: "E-enum + E-sched",
			Text:      "Static thresholds {1, 32, 1024} (on disk; 1024 also in memory): every combination of value size {0, 1, T-1, T, T+1, 2T}, user meta {0, 0xFF}, expiry {none, future}, discard-earlier flag and transaction shape {alone, two entries on the same side, two entries on opposite sides of the threshold}; every record is read through Get+Value, ValueCopy, a prefetching, a non-prefetching and a reverse iterator before flush, after flush, after a compaction to a deeper level and after re-opening with the same, a smaller and a larger threshold: bytes, user meta, expiry, version and discard flag equal what was written and the value-pointer bit agrees with the entry's own threshold. Dynamic threshold (VLogPercentile 0.5 and 0.75; 16 cases of value sizes): after a prefix that raises the threshold to about 900, three committers race - a tiny commit that keeps badger's writer goroutine busy so that the next two requests are written as one batch, a value of 200 or 40 bytes (below the current threshold) and 1 or 3 small values that pull the percentile below it - with the writer goroutine and the threshold listener as scheduled threads (points at the value-log write, the LSM write, the histogram update and the listener's store), so the threshold drops between the value-log write and the LSM write of an in-flight entry: under every interleaving up to the preemption bound every committed value, before and after a flush, reads back exactly through all read paths. Batches: three committers whose value-log values are written as a batch of two requests while the value log rotates to a new file between them (ValueLogMaxEntries 1; plain and encrypted): every value reads back through its pointer, before and after re-open.",
			Note:      "The dynamic part explores interleavings at the hooked points under sequential consistency; the static part is sequential.",
			Technique: "bounded-exhaustive enumeration (static thresholds) + stateless model checking of the writer / threshold-listener interleavings (controlled scheduler, preemption-bounded DFS)",
			Rule:      "static: (threshold, storage, shape, user meta, expiry, discard) tuples, 6 sizes each; dynamic: (percentile, size sequence) cases x schedules up to the bound; distinct = distinct (final threshold) outcomes per case"}
		if q {
			p.Stages = []Stage{en("c06static", 16, 60, nil), sched("c06dyn", 1, 16, 40, prm("cases", 16)), sched("c06dyn", 2, 16, 45, prm("cases", 16)), sched("c16rot", 2, 4, 40, prm("cases", 4))}
		} else {
			p.Stages = []Stage{en("c06static", 16, 300, nil), sched("c06dyn", 3, 16, 900, prm("cases", 16)), sched("c16rot", 3, 4, 600, prm("cases", 4))}
		}
		return p
	}

	planTable["C18"] = enumPlan("exploration",
		"Every non-empty subset (255) of 8 internal keys over user keys {a,aa,aab,ab,b} (shared-prefix shapes that exercise the overlap/diff key reconstruction, two versions per key) x 4 value-size patterns around the block size (0, 10, blockSize-20, blockSize+20 bytes) with varying meta, user meta and expiry, built by the production Builder under block size {64,4096} x {none,snappy,zstd} x {plain,AES-128/192/256} x bloom {off,0.01} x 4 checksum modes x {file, in-memory} (quick: a rotating sixteenth of the 192-option grid per table, every option combination used by about 64 tables; thorough: the full grid plus a 65000-byte key and a 64 KiB value): forward and reverse iteration return exactly the input, Seek / SeekForPrev from every universe key and 36 gap probes land on the first entry >= / last entry <=, Rewind after exhaustion restarts, Smallest/Biggest/MaxVersion/KeyCount match, VerifyChecksum passes; ConcatIterator over every split of every subset into <= 3 contiguous tables (both directions, all seek targets); every byte of the data blocks flipped: a block-verifying table never returns an entry that was not stored.",
		"Drives table.NewTableBuilder / CreateTable / OpenInMemoryTable / Table.NewIterator / NewConcatIterator directly.",
		"nested enumeration; distinct = distinct (subset, value pattern) tables / splits / byte positions",
		[]Stage{en("c18table", 16, 90, nil)},
		[]Stage{en("c18table", 16, 900, prm("full_grid", true, "large", true))})

	planTable["C21"] = enumPlan("exploration",
		"Universe of 5 internal keys (two versions of one key, a key extending it with 0xFF, two more keys); 1..3 (quick) / 1..4 (thorough) input iterators, each ANY subset of the universe (empty inputs included), flat and nested merge trees, forward and reverse: Rewind and Seek to every universe key and 8 gap probes must yield the sorted union with exactly one copy per internal key, tagged with the earliest input holding it.",
		"Every tuple is run three times: with in-harness slice iterators (table-iterator seek semantics), with production table iterators over in-memory tables built from the subsets, and with production ConcatIterators over each subset split into two tables (what a level contributes); the merge iterator is the production table.MergeIterator.",
		"all tuples of subsets; distinct = distinct input tuples",
		[]Stage{en("c21merge", 16, 90, prm("inputs", 3))},
		[]Stage{en("c21merge", 16, 900, prm("inputs", 4))})

	planTable["C16"] = enumPlan("exploration",
		"Codec: every combination of key length {1,2,9,127,128,300}, value length {0,1,127,128,16383,16384}, all 64 subsets of the meta bits, user meta {0,ff}, 7 boundary expiry values and 3 record offsets, plain / AES-128 / AES-256: encodeEntry -> decodeEntry and safeRead.Entry return exactly the entry. Replay: every arrangement of up to 3 (quick) / 4 (thorough) groups out of {plain entry, txn of 1, txn of 3, txn without end marker, txn with a foreign-timestamp entry, GC-moved entry inside a txn, end marker with a wrong timestamp}: logFile.iterate delivers whole groups in order with exact value pointers, stops at the first broken group, validEndOffset at the last good boundary. Corruption: every byte of a 5-record log flipped / incremented: no altered record is ever delivered and nothing after it. Value pointers under batching: three concurrent committers whose value-log values are written by the writer goroutine as a batch of two requests with ValueLogMaxEntries 1 (the value log rotates to a new file between the requests of one batch), plain and encrypted, under every interleaving up to the preemption bound: every value reads back through its pointer, before and after a re-open.",
		"Records are written through the production writeEntry into a real mmap log file and read back by the production iterate.",
		"nested enumeration; distinct = distinct field tuples / group arrangements / (byte position, mutation)",
		[]Stage{en("c16codec", 16, 60, nil), en("c16replay", 16, 40, prm("groups", 3)), en("c16corrupt", 8, 30, nil), sched("c16rot", 2, 4, 40, prm("cases", 4))},
		[]Stage{en("c16codec", 16, 300, nil), en("c16replay", 16, 300, prm("groups", 4)), en("c16corrupt", 8, 60, nil), sched("c16rot", 3, 4, 600, prm("cases", 4))})

	planTable["C17"] = enumPlan("exploration",
		"All sequences of up to 3 (quick) / 4 (thorough) change sets (creates on levels 0-2 with/without key id and compression, deletes of known and unknown tables, compaction-shaped create+delete sets) with deletionsRewriteThreshold 0, 2 and 10000 (automatic rewrites at every possible position): after every addChanges the replayed file, the in-memory manifest and a re-open equal the reference table map. For every sequence up to length 2 (3) the file is cut at EVERY byte (replay must give the state after the last complete change set and its offset) and every byte is flipped (replay must fail or give a prefix state).",
		"Drives manifestFile.addChanges / ReplayManifestFile directly on real files.",
		"recursive enumeration of change-set sequences; distinct = distinct (threshold, sequence)",
		[]Stage{en("c17manifest", 16, 120, prm("depth", 3, "fault_depth", 3))},
		[]Stage{en("c17manifest", 16, 900, prm("depth", 4, "fault_depth", 3))})

	crashPlan := func(text, note string, quick, thorough []Stage) func(q bool) *Plan {
		return func(q bool) *Plan {
			p := &Plan{Level: "fault_enumeration", Engine: "E-crash", Text: text, Note: note,
				Technique: "exhaustive crash-point enumeration: the history runs once under the controlled scheduler with every persistence step as a point; an image per step is recovered with the production Open and compared with the reference model",
				Rule:      "histories = all sequences of the given length over the operation alphabet plus scripted ones; crash points = every y.VerifIO step (file create, mmap write, msync/fsync, truncate, rename, unlink, dirsync, manifest append) of every history; distinct = distinct images (file set + contents + acknowledged-count)",
				Assume:    []string{"persistence steps are those hooked by y.VerifIO (grep-audited list in DESIGN.md §2.1); multi-syscall steps inside ristretto's MmapFile are modelled by synthesized intermediate images", "sequential histories", "virtual time"}}
			if q {
				p.Stages = quick
			} else {
				p.Stages = thorough
			}
			return p
		}
	}
	planTable["C08"] = crashPlan("Every persistence step of every history is a crash point with the page cache surviving: the image must Open, show a commit-order prefix containing every acknowledged operation, no partial transaction, and be stable under a second close/re-open.",
		"Histories are sequential (one client thread plus badger's own writer/flusher goroutines).",
		[]Stage{en("crash08", 16, 70, prm("oracle", "c08", "len", 4, "alphabet", "T2 TV TD WB F C R")),
			// a read transaction's open iterator pins the memtables it was created over (and, before the fix, their WALs): later deletes are flushed and compacted away, then the crash
			en("crash08", 16, 30, prm("oracle", "c08", "len", 1, "alphabet", "T2", "scripted", "T2 IO F TD F C;T2 IO TD F C T2;TV IO F TD F C IC;T2 F IO TD F C")),
			// ValueThreshold 1: every value, including the decimal commit timestamp that ends a transaction in the WAL, is above the threshold
			en("crash08", 16, 30, prm("oracle", "c08", "len", 3, "alphabet", "T2 TV F", "value_threshold", 1)),
			sched("crash08c", 2, 16, 30, prm("threads", 2))},
		[]Stage{en("crash08", 16, 900, prm("oracle", "c08", "len", 5, "alphabet", "T2 TV TD WB F C R GC")), sched("crash08c", 2, 16, 300, prm("threads", 2)), sched("crash08c", 2, 16, 600, prm("threads", 3))})
	planTable["C09"] = crashPlan("For every write step (WAL and value-log mmap writes, MANIFEST appends) of every history, the written file is torn at EVERY byte offset of the bytes that step changed (remainder as before the step: for the pre-allocated mmap logs zeros up to the old length and, additionally, the file ending at the cut; for the MANIFEST both cut short and zero-filled to the new length), all other files as before the step; plain and encrypted. Each image must Open and show a commit-order prefix containing every acknowledged operation, the in-flight transaction present as a whole or not at all.",
		"Torn states are derived from consecutive quiescent snapshots around each write step, so every other file is consistent with the moment of the tear.",
		[]Stage{en("crash09", 16, 40, prm("oracle", "c08", "len", 2, "alphabet", "T2 TV WB F C")), en("crash09", 16, 40, prm("oracle", "c08", "len", 2, "alphabet", "T2 TV WB", "cut_short", true)), en("crash09", 16, 60, prm("oracle", "c08", "len", 3, "alphabet", "T2 TV WB F C", "max_per_step", 24)), en("crash09", 16, 40, prm("oracle", "c08", "len", 2, "alphabet", "TV WB F", "encrypt", true, "max_per_step", 64, "cut_short", true))},
		[]Stage{en("crash09", 16, 900, prm("oracle", "c08", "len", 4, "alphabet", "T2 TV TD WB F C R", "cut_short", true)), en("crash09", 16, 600, prm("oracle", "c08", "len", 3, "alphabet", "T2 TV WB F C", "encrypt", true, "cut_short", true))})
	planTable["C10"] = crashPlan("SyncWrites on. For every persistence step of every history the power-loss image is constructed from the event log (file contents as of the last completed msync/fsync/O_DSYNC write of that inode, directory entries as of the last completed directory fsync) and recovered: it must Open and contain every acknowledged operation as a commit-order prefix. Concurrent part: three committers on a nearly full memtable (so that two requests are written as one batch with a memtable/WAL rotation between them), every persistence step a schedule point, interleavings up to the preemption bound; the power-loss image of every step of every schedule must contain the commits acknowledged by then. Variants: Dir and ValueDir as different directories (each with its own directory fsyncs; sequential histories and the concurrent scenario), and the concurrent scenario with value-log values while the value log rotates in the middle of a batch of two requests.",
		"Power-loss model: only explicitly synced contents and directory entries survive; file sizes travel with the directory entry; everything present when Open returned is taken as durable.",
		[]Stage{en("crash10", 16, 80, prm("oracle", "c08", "sync_writes", true, "len", 4, "alphabet", "T2 TV TD WB F C R")),
			// ValueThreshold 1 (see C08)
			en("crash10", 16, 30, prm("oracle", "c08", "sync_writes", true, "len", 3, "alphabet", "T2 TV F", "value_threshold", 1)),
			// Dir and ValueDir are different directories: each has its own directory fsyncs
			en("crash10", 16, 40, prm("oracle", "c08", "sync_writes", true, "separate_value_dir", true, "len", 3, "alphabet", "T2 TV WB F C")),
			sched("crash10c", 1, 16, 45, nil), sched("crash10c", 1, 16, 30, prm("separate_value_dir", true)), sched("crash10c", 1, 16, 30, prm("vlog", true))},
		[]Stage{en("crash10", 16, 900, prm("oracle", "c08", "sync_writes", true, "len", 5, "alphabet", "T2 TV TD WB F C R GC")), sched("crash10c", 2, 16, 900, nil), sched("crash10c", 2, 16, 600, prm("separate_value_dir", true)), sched("crash10c", 2, 16, 600, prm("vlog", true)), en("crash10", 16, 600, prm("oracle", "c08", "sync_writes", true, "separate_value_dir", true, "len", 4, "alphabet", "T2 TV TD WB F C R GC"))})

	planTable["C11"] = crashPlan("After every recovery of every crash image (page-cache images at every persistence step, including clean close/re-open steps inside the histories) the maximum stored version is dumped (all versions, internal keys, and the memtable max version), then a new transaction writes every key: each new Item.Version must exceed that maximum and reads must return the new values.",
		"Piggy-backs on the C08 image enumeration (which contains DropAll / DropPrefix histories); the StreamWriter and Backup/Load enumerations of C26 / C24 are run as further stages because they end with the same post-condition (new commit above every loaded version, read back).",
		[]Stage{en("crash08", 16, 80, prm("oracle", "c11", "len", 4, "alphabet", "T2 TD WB F C R DA")),
			// the other ways a database comes into being: StreamWriter.Flush and Load (their checks end with the same post-condition)
			en("c26sw", 16, 40, nil), en("c24seq", 16, 40, prm("len", 2))},
		[]Stage{en("crash08", 16, 900, prm("oracle", "c11", "len", 5, "alphabet", "T2 TV TD WB F C R DA DP")), en("c26sw", 16, 600, prm("full", true)), en("c24seq", 16, 600, prm("len", 4))})

	planTable["C02"] = func(q bool) *Plan {
		p := &Plan{Level: "model_checking", Engine: "E-sched",
			Text:      "All 91 unordered pairs of 13 transaction programs over keys x,y (blind writes, read-modify-write, cross reads, read-only, reads through Get, iterator Item and Seek, and an iterator created before the transaction writes the key it then reads through it) and 12 triples with a long-running reader-writer are run under every interleaving up to the preemption bound; per execution: Commit returns ErrConflict IFF a transaction with commitTs > readTs, checked earlier, wrote a key it read (no missed and no spurious conflicts); rejected writes invisible; the committed history replayed serially in commit-ts order reproduces every committed transaction's reads. Managed mode: all orders of up to 3 CommitAt transactions with non-monotonic timestamps between a transaction's read and its commit, with SetDiscardTs (which cleans the conflict log, kept in commit order) called at every position.",
			Note:      "Key fingerprints of x and y asserted distinct; points: before each API call, after the conflict check/timestamp allocation, before doneCommit.",
			Technique: "stateless model checking (controlled scheduler, preemption-bounded DFS) plus exhaustive enumeration of managed-mode histories",
			Rule:      "schedules of each pair/triple up to the bound; distinct = distinct (verdict, commit order) outcomes per case"}
		if q {
			p.Stages = []Stage{
				sched("c02pair", 2, 16, 40, prm("cases", 91)),
				sched("c02triple", 2, 12, 40, prm("cases", 12)),
				en("c02managed", 4, 30, nil),
				sched("c02pair", 3, 16, 40, prm("cases", 91)), // budgeted: reported as capped if it does not finish
			}
		} else {
			p.Stages = []Stage{
				sched("c02pair", 2, 16, 300, prm("cases", 91)),
				sched("c02pair", 3, 16, 600, prm("cases", 91)),
				sched("c02triple", 2, 12, 600, prm("cases", 12)),
				en("c02managed", 4, 60, nil),
			}
		}
		return p
	}

	planTable["C01"] = lsmPlan("Normal-mode histories on the real DB: writes (inline and value-log values), deletes, flushes, every picker compaction, table ageing, value-log GC, with up to two read-only snapshot transactions opened at arbitrary points and kept open; after EVERY transition every open snapshot re-reads every key by Get+ValueCopy, a prefetching forward iterator and a non-prefetching reverse iterator and must still see exactly the newest write at or below its read timestamp (a fresh transaction must see the latest state). Option combinations: the same search under snappy + encryption + 3 levels and in-memory + zstd + larger tables (thorough: more). Concurrent part: readers, committers, a flusher and a compaction interleaved under the controlled scheduler (see C03 scenarios). Also: an iterator opened in the middle of a value-log GC rewrite (scheduled GC phases), and expiring versions in a three-level layout.",
		stateRule,
		[]Stage{sched("c01flush", 2, 16, 30, prm("variant", "flush")), sched("c01flush", 2, 16, 30, prm("variant", "compact")), bfs("lsm", 5, 60, prm("oracle", "c12", "mode", "normal", "keys", 2, "ops", "Sa Sb Da F C0 C1 O X")),
			// a level-0 trigger of one table, starting with a snapshot open below an overwrite / a delete: later transactions begin (moving the newest read timestamp), the old version is flushed and compacted while the snapshot still needs it
			bfs("lsm", 4, 40, prm("oracle", "c12", "mode", "normal", "keys", 1, "l0_tables", 1, "ops", "Sa Da F C0 O X"), seq("Sa O Sa"), seq("Sa O Da")),
			// option combinations: snappy + encryption + 3 levels, in-memory + zstd, big memtable / table sizes
			bfs("lsm", 4, 30, prm("oracle", "c12", "mode", "normal", "keys", 2, "big", true, "compression", "snappy", "encrypt", true, "max_levels", 3, "ops", "Sa Bb Da F C0 O X")),
			bfs("lsm", 4, 30, prm("oracle", "c12", "mode", "normal", "keys", 2, "inmemory", true, "compression", "zstd", "table_size", 4096, "base_level_size", 8192, "ops", "Sa Sb Da F C0 O X")), bfs("lsm", 4, 40, prm("oracle", "c12", "mode", "normal", "keys", 2, "big", true, "gc", true, "vlog_max_entries", 1, "ops", "Ba Bb Sa Da F C0 G O X"), seq("Ba Bb F"), seq("Ba Ba F C0")),
			// an iterator opened in the middle of a value-log GC rewrite keeps reading its snapshot's values
			sched("c15gc", 2, 16, 25, prm("variant", "iter")),
			// an expired newest version compacted into the level above the one holding the older version keeps hiding it
			bfs("lsm", 4, 30, prm("oracle", "c12", "mode", "normal", "keys", 2, "ttl", true, "big", true, "value_threshold", 1024, "big_size", 400, "l0_tables", 1, "ops", "La Sa F A C0 C1 O X"), seq("Ba Bb F C0"), seq("Ba Bb F C0 La F O X"))},
		[]Stage{sched("c01flush", 3, 16, 300, prm("variant", "flush")), sched("c01flush", 3, 16, 300, prm("variant", "compact")), sched("c01flush", 2, 16, 300, prm("variant", "compact", "inmemory", false)), bfs("lsm", 7, 900, prm("oracle", "c12", "mode", "normal", "keys", 2, "ops", "Sa Sb Da Db F C0 C1 O X A")), bfs("lsm", 6, 600, prm("oracle", "c12", "mode", "normal", "keys", 2, "big", true, "gc", true, "vlog_max_entries", 1, "ops", "Ba Bb Sa Da F C0 G O X"), seq("Ba Bb F"), seq("Ba Ba F C0")), bfs("lsm", 5, 600, prm("oracle", "c12", "mode", "normal", "keys", 2, "inmemory", true, "ops", "Sa Sb Da F C0 C1 O X")),
			bfs("lsm", 5, 600, prm("oracle", "c12", "mode", "normal", "keys", 2, "big", true, "compression", "snappy", "encrypt", true, "max_levels", 3, "ops", "Sa Bb Da F C0 C1 O X")),
			bfs("lsm", 5, 600, prm("oracle", "c12", "mode", "normal", "keys", 2, "inmemory", true, "compression", "zstd", "table_size", 4096, "base_level_size", 8192, "ops", "Sa Sb Da F C0 C1 O X")),
			bfs("lsm", 5, 600, prm("oracle", "c12", "mode", "normal", "keys", 2, "big", true, "compression", "zstd", "encrypt", true, "mem_table_size", 16<<10, "value_threshold", 32, "nvk", 100, "ops", "Sa Bb Da F C0 C1 O X"))})

	// L0->L0 shapes for C15 (as in C12: the base level is over its target, so compactor 0 merges L0 into itself);
	// key b has a value-log value, the filler keys are inline
	c15l0 := prm("oracle", "c12", "keys", 2, "bulk", true, "big", true, "big_size", 1200, "gc", true, "vlog_max_entries", 1, "mem_table_size", 32<<10, "value_threshold", 1024, "l0_tables", 2, "max_levels", 3, "ops", "Ba G F C0 T A")
	c15fat := "U U U U F "
	c15deep := "Ux Ux Ux Ux F "
	c15l0seed := c15deep + c15deep + "C0 " + c15deep + c15deep + c15deep + "C0 Bb " + c15fat + c15fat + c15fat + c15fat + "A T"
	planTable["C15"] = lsmPlan("Normal- and managed-mode histories with value-log values (one entry per value-log file, so files rotate constantly), deletes, flushes, compactions and RunValueLogGC of the oldest sealed file as explicit transitions (discard statistics forced: any sealed file may be picked), with snapshot transactions, a Get item and an iterator item held in open transactions across the GC: after every transition every read (fresh, snapshot, held items) must be unchanged and no deleted key may reappear. Concurrent part: GC rewrite phases (scan, write-back, file deletion) interleaved with a deleter/compactor, an iterator opened mid-GC, and a snapshot reader whose key is overwritten, flushed and compacted to the last level during the rewrite, under the controlled scheduler.",
		stateRule,
		[]Stage{bfs("lsm", 4, 60, prm("oracle", "c12", "mode", "normal", "keys", 2, "big", true, "gc", true, "vlog_max_entries", 1, "l0_tables", 1, "ops", "Ba Bb Da F C0 G Ka Ia Z O X"), seq("Ba Bb F"), seq("Ba Bb Ba F C0")),
			sched("c15gc", 2, 16, 25, prm("variant", "iter")), sched("c15gc", 2, 16, 30, prm("variant", "delete")), sched("c15gc", 2, 16, 30, prm("variant", "snapshot")), sched("c15gc", 2, 16, 30, prm("variant", "delete-deep")),
			// a GC rewrite puts key@version into a second L0 table; an L0->L0 compaction that leaves the recent table out must keep the newer copy in front
			bfs("lsm", 4, 40, c15l0, seq(c15l0seed))},
		[]Stage{bfs("lsm", 6, 900, prm("oracle", "c12", "mode", "normal", "keys", 2, "big", true, "gc", true, "vlog_max_entries", 1, "l0_tables", 1, "ops", "Ba Bb Sa Da F C0 C1 G Ka Ia Z O X"), seq("Ba Bb F"), seq("Ba Bb Ba F C0")),
			bfs("lsm", 5, 600, prm("oracle", "c12", "mode", "managed", "keys", 2, "big", true, "gc", true, "vlog_max_entries", 2, "l0_tables", 1, "ops", "Ba Bb Da F C0 T G Ka Ia Z"), seq("Ba Bb Ba F")),
			sched("c15gc", 3, 16, 300, prm("variant", "iter")), sched("c15gc", 3, 16, 600, prm("variant", "delete")), sched("c15gc", 3, 16, 600, prm("variant", "snapshot")), sched("c15gc", 3, 16, 600, prm("variant", "delete-deep"))})

	planTable["C07"] = lsmPlan("Every state of the managed- and normal-mode operation-sequence space (writes, deletes, value-log values, flushes, compactions, discard-timestamp moves) is closed and re-opened read-write and, separately, read-only: the dump of ALL retained versions (including internal keys) must be identical before Close and after Open, reads at every timestamp >= the discard timestamp equal the model afterwards, and a read-only open + full read + close leaves every file byte-identical (name, size, content hash). Variants with CompactL0OnClose and different compaction settings compare visible reads; a re-open with another compression setting (tables keep the one recorded in the MANIFEST) and re-opens after a value-log GC left one key and version in two L0 tables are further transitions. Read-only opens of crash images (every persistence step of short histories, including empty / truncated log files and tables not yet in the MANIFEST): whether the open succeeds or is refused, no file may change (logical content and size). Re-opens with other settings as transitions of the search: a much larger BaseLevelSize (the base level is recomputed), bloom filters switched on for tables built without them and off again.",
		stateRule,
		[]Stage{bfs("lsm", 5, 50, prm("oracle", "c12", "keys", 2, "reopen", true, "readonly", true, "big", true, "ops", "Sa Ba Da F C0 T R RO")), bfs("lsm", 5, 40, prm("oracle", "c12", "mode", "normal", "keys", 2, "reopen", true, "readonly", true, "ops", "Sa Sb Da F C0 R RO")),
			bfs("lsm", 3, 30, prm("oracle", "c12", "keys", 2, "reopen", true, "closecompact", true, "ops", "Sa Sb Da F C0 T R CX")),
			// re-open with another compression setting; re-open after a value-log GC left the same key and version in two L0 tables
			bfs("lsm", 4, 30, prm("oracle", "c12", "mode", "normal", "keys", 2, "reopen", true, "snapshots", false, "ops", "Sa Da F C0 R RC")),
			bfs("lsm", 2, 30, prm("oracle", "c12", "mode", "normal", "keys", 2, "big", true, "gc", true, "vlog_max_entries", 1, "reopen", true, "readonly", true, "snapshots", false, "ops", "Ba F C0 G R RO RC"), seq("Ba Bb F G F"), seq("Ba Bb F G")),
			// re-open with a much larger BaseLevelSize (the base level moves to the last level while the level above it holds data), then deletes and compactions
			bfs("lsm", 4, 30, prm("oracle", "c12", "mode", "normal", "keys", 1, "bulk", true, "value_threshold", 1024, "l0_tables", 1, "reopen", true, "rebase", true, "snapshots", false, "ops", "Sa Da F C0 C1 RB R"), seq("Ux F C0 Sa F C0")),
			// re-open with bloom filters switched on (tables built without one must still answer) and off again
			bfs("lsm", 5, 30, prm("oracle", "c12", "mode", "normal", "keys", 2, "reopen", true, "rebloom", true, "readonly", true, "snapshots", false, "l0_tables", 1, "ops", "Sa Sb Da F C0 RF RO")),
			// read-only opens of what a crash leaves behind (orphan tables, empty or truncated log files): no file may change
			en("crash08", 16, 40, prm("oracle", "c07ro", "len", 3, "alphabet", "T2 TV WB F C R"))},
		[]Stage{bfs("lsm", 6, 900, prm("oracle", "c12", "keys", 2, "reopen", true, "readonly", true, "big", true, "ops", "Sa Sb Ba Da F C0 C1 T R RO")), bfs("lsm", 6, 600, prm("oracle", "c12", "mode", "normal", "keys", 2, "reopen", true, "readonly", true, "ops", "Sa Sb Da F C0 C1 R RO")), bfs("lsm", 5, 600, prm("oracle", "c12", "keys", 2, "reopen", true, "closecompact", true, "ops", "Sa Sb Da F C0 T R CX")),
			en("crash08", 16, 600, prm("oracle", "c07ro", "len", 4, "alphabet", "T2 TV TD WB F C R GC"))})
	planTable["C37"] = lsmPlan("The managed- and normal-mode operation-sequence spaces of C12/C01 are executed on an InMemory database (the normal-mode one with the SyncWrites option set, as an application sharing one Options value between its on-disk and in-memory instances would) against the SAME reference model that the on-disk runs are checked against (so both modes agree on every read at every step); the DropPrefix / DropAll search of C29 is run in memory as well, and the Backup/Load enumeration of C24 loads every full backup of an on-disk source into an InMemory database too; after every transition the process must hold no regular file open (scan of /proc/self/fd) and its scratch directory must still be empty.",
		stateRule,
		[]Stage{bfs("lsm", 5, 40, prm("oracle", "c12", "keys", 2, "inmemory", true, "nofiles", true)), bfs("lsm", 5, 40, prm("oracle", "c12", "mode", "normal", "keys", 2, "inmemory", true, "nofiles", true, "sync_writes", true, "ops", "Sa Sb Da F C0 C1 O X")),
			// a backup taken from an on-disk database (values in its value log) loaded into an InMemory one
			en("c24seq", 16, 40, prm("len", 2)),
			// values at the threshold: one transaction / one incremental stream write of 1, 8, 30 values of threshold-1, threshold, threshold+1 bytes, on disk and in memory
			en("c37thr", 6, 30, nil),
			// drops in memory: same model as the on-disk C29 search
			bfs("lsm", 4, 40, prm("oracle", "c29", "mode", "normal", "keyset", "drop", "keys", 4, "drops", true, "snapshots", false, "l0_tables", 1, "inmemory", true, "nofiles", true, "ops", "Sp1a Sp2a Sq Dp1a F C0 Yp1 Yp Yp1,q Yzz V"))},
		[]Stage{en("c37thr", 6, 60, nil), bfs("lsm", 6, 600, prm("oracle", "c12", "keys", 2, "inmemory", true, "nofiles", true)), bfs("lsm", 6, 600, prm("oracle", "c12", "mode", "normal", "keys", 2, "inmemory", true, "nofiles", true, "ops", "Sa Sb Da Db F C0 C1 O X A")),
			bfs("lsm", 5, 600, prm("oracle", "c29", "mode", "normal", "keyset", "drop", "keys", 4, "drops", true, "snapshots", false, "l0_tables", 1, "inmemory", true, "nofiles", true, "ops", "Sp1a Sp1b Sp2a Sq Dp1a F C0 C1 Yp1 Yp Yp1,q Yp1,p2 Yzz V"))})
	planTable["C33"] = lsmPlan("Normal-mode histories mixing expiring (TTL 5 s), non-expiring and deleted versions with flushes, compactions, value-log GC and virtual-clock advances (11 s): after every transition Get and forward/reverse iteration show an entry iff now < expiresAt (and, for every history of up to 3 (quick) / 5 (thorough) steps over {TTL set, set, delete, clock advance, flush, compaction}, so do a Stream run and a Backup + Load into a fresh database); an expired newest version hides older ones; a newer plain write is visible. Crash images of short histories with TTL entries (inline and value-log values): after recovery every entry still carries its user meta, and two virtual hours later every TTL entry is invisible while the rest of the commit prefix is unchanged.",
		stateRule,
		[]Stage{bfs("lsm", 5, 70, prm("oracle", "c12", "mode", "normal", "keys", 1, "ttl", true, "l0_tables", 1, "ops", "Sa La Da F C0 A O X")), en("c33stream", 16, 60, prm("len", 3)),
			// a value-log value with a TTL whose file is rewritten by the GC while it is still live, then the clock passes the expiry
			bfs("lsm", 3, 40, prm("oracle", "c12", "mode", "normal", "keys", 2, "ttl", true, "big", true, "gc", true, "vlog_max_entries", 1, "l0_tables", 1, "snapshots", false, "ops", "Qa Bb F C0 G A"), seq("Qa Bb F"), seq("Qa Bb F C0")),
			// three populated levels: an expired newest version compacted into the level above the one that holds the older version
			bfs("lsm", 4, 40, prm("oracle", "c12", "mode", "normal", "keys", 2, "ttl", true, "big", true, "value_threshold", 1024, "big_size", 400, "l0_tables", 1, "ops", "La Sa F A C0 C1 O X"), seq("Ba Bb F C0"), seq("Ba Bb F C0 La F O X")),
			// crash images: the expiry (and user meta) of entries recovered from the WAL / value log must survive; two virtual hours later they are gone
			en("crash08", 16, 40, prm("oracle", "c33", "len", 3, "alphabet", "TX T2 TD F C"))},
		[]Stage{bfs("lsm", 7, 900, prm("oracle", "c12", "mode", "normal", "keys", 2, "ttl", true, "l0_tables", 1, "ops", "Sa La Sb Da F C0 C1 A O X")), bfs("lsm", 5, 600, prm("oracle", "c12", "mode", "normal", "keys", 1, "ttl", true, "big", true, "gc", true, "vlog_max_entries", 1, "l0_tables", 1, "ops", "Ba La Qa Da F C0 G A")), en("c33stream", 16, 600, prm("len", 5)),
			bfs("lsm", 5, 600, prm("oracle", "c12", "mode", "normal", "keys", 2, "ttl", true, "big", true, "gc", true, "vlog_max_entries", 1, "l0_tables", 1, "snapshots", false, "ops", "Qa Bb Da F C0 G A"), seq("Qa Bb F"), seq("Qa Bb F C0"))})

	planTable["C22"] = func(q bool) *Plan {
		p := &Plan{Level: "model_checking", Engine: "E-sched + E-enum",
			Text:      "Sequential: every put sequence of length <= 4 (quick) / 5 (thorough) over 4 internal keys (two versions of one key, a key extending it, overwrites) with tower heights enumerated from {1,2,3} per insert; after every put Get, forward/reverse iteration, Seek and SeekForPrev on 28 probes equal a sorted-map model. Concurrent: two putters (same-key overwrite race, adjacent keys, overwrite next to an insert) and a reader (Gets / forward scan / reverse scan), every atomic load/store/CAS in skl and the arena being a schedule point, tower heights enumerated from {1,2}: every Get returns a value some put wrote (self-checking values: no torn or placeholder values), a put that returned is visible, returned values never change afterwards, scans are strictly sorted without duplicates and contain every key put before they began, the final list is the sorted map of last writers.",
			Note:      "Fine mode: sync/atomic in skl and y is replaced by a same-layout shim whose every operation is a schedule point; sequentially consistent interleavings only (plain data races are looked for by the separate -race pass).",
			Technique: "stateless model checking at atomic-operation granularity (controlled scheduler, preemption-bounded DFS) plus exhaustive sequential enumeration",
			Rule:      "48 (height pattern x key layout x reader kind) cases x schedules up to the bound; distinct = distinct observation tuples"}
		fine := func(bound int, budget float64) Stage {
			return Stage{Binary: "badger.fine", Scenario: "c22conc", Bound: bound, NShard: 16, BudgetS: budget, Params: prm("cases", 144)}
		}
		if q {
			p.Stages = []Stage{en("c22seq", 16, 40, prm("len", 4)), fine(1, 30), fine(2, 60), fine(3, 30)}
		} else {
			p.Stages = []Stage{en("c22seq", 16, 600, prm("len", 5)), fine(2, 600), fine(3, 1200)}
		}
		return p
	}

	planTable["C34"] = func(q bool) *Plan {
		p := &Plan{Level: "model_checking", Engine: "E-sched",
			Text:      "y.WaterMark alone, with every channel statement and every atomic operation of watermark.go as a schedule point: Begin issued in index order, Done in any order, one or two WaitForMark callers, from a fresh mark and from one that already advanced (readMark pattern); after EVERY step DoneUntil is monotone and never covers an index that was begun and not yet done; WaitForMark(j) returns only with DoneUntil >= j; at quiescence DoneUntil equals the largest fully-done index and no waiter is stranded (a stuck waiter is a deadlock of the execution). Oracle level: the C03 commit/reader interleavings, where a reader's snapshot must contain every commit at or below its read timestamp; the same race right after DB.Load (which re-seats the oracle's timestamps); and a committer (Commit / CommitWith) racing a DropPrefix that matches nothing, so that the commit is refused with ErrBlockedWrites after its timestamp was allocated: later readers and committers must still be released and read consistently.",
			Note:      "Bounded model: 2-3 indices, 1-2 waiters; sequentially consistent interleavings of channel and atomic operations.",
			Technique: "stateless model checking at channel/atomic-operation granularity (controlled scheduler, preemption-bounded DFS) with per-step invariants",
			Rule:      "6 cases (thread layout x initial mark) x schedules up to the bound"}
		wm := func(bound int, budget float64) Stage {
			return Stage{Binary: "badger.fine", Scenario: "c34wm", Bound: bound, NShard: 6, BudgetS: budget, Params: prm("cases", 6)}
		}
		if q {
			p.Stages = []Stage{wm(1, 30), wm(2, 45), wm(3, 40), sched("c03a", 1, 16, 25, nil), sched("c34load", 1, 16, 20, nil), sched("c34load", 2, 16, 30, nil), sched("c34blocked", 1, 16, 40, prm("cases", 2)), sched("c34blocked", 2, 16, 25, prm("cases", 2))}
		} else {
			p.Stages = []Stage{wm(2, 300), wm(3, 900), wm(4, 1200), sched("c03a", 2, 16, 600, nil), sched("c34load", 1, 16, 60, nil), sched("c34load", 3, 16, 300, nil), sched("c34blocked", 3, 16, 600, prm("cases", 2))}
		}
		return p
	}

	planTable["C38"] = func(q bool) *Plan {
		p := &Plan{Level: "model_checking", Engine: "E-sched",
			Text:      "Real DB with 2 compactors, a 16 KiB memtable, one memtable slot and an L0 stall limit of 2 (so writers stall on the memtable queue and on L0, and only badger's own compactors can release them): 8 three-thread scenarios (commits x commits x Close; WriteBatch.Flush x iteration with ValueCopy x RunValueLogGC; commits x DropAll; commits x DropPrefix x reader; Flatten x commits; Subscribe+cancel x commits x Close; two Close calls; Sync x commits; and a commit x StreamWriter PrepareIncremental/Prepare + Write + Flush with a point between the commit's write and its timestamp being marked done; plus a subscriber with 3 / 1005 / 1500 commits queued (batched by the publisher) or 3 / 999..1003 / 1500 commits published as one batch each (the subscriber channel holds 1000, so the publisher is blocked on it with its lock held) behind a slow callback that then fails: Subscribe, later commits and Close must return, decided by quiescence of the bubble; plus Close called with level 0 exactly at the stall limit (2 or 3 tables) and an active and/or an already queued memtable still to flush, with 2 or 4 compactors whose first tick has not fired: Close must return within 10 virtual minutes and every key must be there after re-open; plus DB.Load of a backup cut at every byte, after which Update and View must still return) are run under every interleaving of their API calls and the internal write/flush/compaction points up to the preemption bound; every call must return within 120 s of VIRTUAL time (2400 compactor ticks), otherwise the goroutine dump is the counterexample; a panic or fatal exit is a violation.",
			Note:      "Liveness is 'within the virtual horizon'; a schedule that only fails to finish in real time is inconclusive, not a violation.",
			Technique: "stateless model checking with a virtual-time horizon (controlled scheduler, preemption-bounded DFS)",
			Rule:      "8 scenarios x schedules up to the bound; outcome = returned / deadlock"}
		if q {
			p.Stages = []Stage{sched("c38", 0, 8, 40, prm("cases", 8)), sched("c38sw", 2, 2, 30, prm("cases", 2)), en("c38sub", 5, 30, nil), en("c38stall", 4, 30, nil), en("c24trunc", 16, 20, nil), sched("c03close", 1, 16, 30, nil), sched("c38", 1, 8, 45, prm("cases", 8))}
		} else {
			p.Stages = []Stage{sched("c38", 1, 8, 600, prm("cases", 8)), sched("c38sw", 3, 2, 300, prm("cases", 2)), en("c38sub", 5, 60, nil), en("c38stall", 4, 60, nil), en("c24trunc", 16, 60, nil), sched("c03close", 2, 16, 300, nil), sched("c38", 2, 8, 1800, prm("cases", 8))}
		}
		return p
	}

	planTable["C29"] = func(q bool) *Plan {
		p := &Plan{Level: "model_checking", Engine: "E-seq + E-sched + E-crash",
			Text:      "Sequences: breadth-first search over histories on keys {p1a,p1b,p2a,q} (writes with inline and value-log values, deletes, flushes, every picker compaction, close/re-open) with DropPrefix for the prefix sets {p1}, {p}, {p1,q}, {p1,p2}, {p1a,p1} (overlapping), {p1a,qq} (two non-adjacent tables, each keeping a key), {zz} (no match) and DropAll as transitions, from empty, from seeds whose deeper level holds one table per key, and from seeds with an older level-0 table that holds no dropped key while the key it holds is deleted or overwritten in the memtable the drop flushes; after every transition every key read by Get and both iterator directions equals the model (keys with a dropped prefix invisible, every other key unchanged, later writes accepted), levels are structurally valid and equal to MANIFEST and files. Schedules: a transaction writing a dropped and a kept key races DropPrefix / DropAll at the points of the commit pipeline and of the drop: the final state is commit-then-drop, drop-then-commit, or the commit failed with ErrBlockedWrites and left nothing. Crashes: every persistence step of histories containing DropPrefix / DropAll: after recovery the state is a commit-order prefix, or, inside a drop, every key has its pre-drop value or is absent.",
			Note:      "Drops run without concurrent readers (documented precondition of DropAll).",
			Technique: "explicit-state BFS over operation sequences + stateless model checking of commit vs drop + crash-point enumeration, all on the implementation",
			Rule:      "BFS states = canonical LSM shapes; schedules up to the bound; crash points = every persistence step"}
		// first seed: three tables in the deeper level, [p1a p1b] [p2a p2b] [q qq]: a drop of {p1,q} touches the outer two only
		seeds := [][]string{seq("Bp1a Bp1b Bp2a Bp2b Bq Bqq F C0"), seq("Bp1a Bp1b Bp2a Bq F C0 Sp1a F"), seq("Sp1a Sp2a Sq F")}
		base := prm("oracle", "c29", "mode", "normal", "keyset", "drop", "keys", 4, "big", false, "drops", true, "reopen", true, "snapshots", false, "l0_tables", 1)
		withOps := func(m map[string]any, ops string) map[string]any {
			n := map[string]any{}
			for k, v := range m {
				n[k] = v
			}
			n["ops"] = ops
			return n
		}
		enc29 := withOps(base, "")
		enc29["encrypt"] = true
		shrink := withOps(base, "")
		shrink["bulk"], shrink["value_threshold"] = true, 1024 // U<prefix>: 10 filler keys x 400 bytes inline, about 4 KiB per table
		big := withOps(base, "")
		big["value_threshold"] = 1024 // big values stay inline and fill a table each: one table per key in the deeper level
		big["big_size"] = 400
		big["keys"] = 6
		if q {
			p.Stages = []Stage{
				bfs("lsm", 4, 50, withOps(base, "Sp1a Sp2a Sq Dp1a F C0 Yp1 Yp Yp1,q Yp1,p2 Yp1a,p1 Yzz V R")),
				bfs("lsm", 3, 50, withOps(big, "Sp1a Sq Dp1a F C0 Yp1 Yp Yp1,q Yp1a,qq Yp1a,p1 V R"), seeds...),
				// an older L0 table WITHOUT the prefix whose key is deleted/overwritten in the table the drop flushes
				bfs("lsm", 4, 40, withOps(base, "Dq Sq Sp1a F Yp1 Yp1,p2 R"), seq("Sq F"), seq("Sq Sp2a F")),
				// encrypted database (table indices go through the index cache, keyed by table id; DropAll restarts the ids)
				bfs("lsm", 4, 30, withOps(enc29, "Sp1a Sq F C0 V Yp1")),
				// a drop that empties the LAST level while the level above it still holds a key
				bfs("lsm", 4, 30, withOps(shrink, "Yx Dq Sq F C0"), seq("Ux F C0 Sq F C0")),
				sched("c29race", 2, 4, 40, prm("cases", 4)),
				en("crash08", 16, 60, prm("oracle", "c29", "len", 3, "alphabet", "T2 WB F C DP DA")),
				en("crash08", 16, 40, prm("oracle", "c29", "len", 4, "alphabet", "T2 F DA DP")), // overwrite after a flush, then the drop
				en("crash08", 16, 40, prm("oracle", "c29", "len", 4, "alphabet", "T2 IO IC DP", "scripted", "WB T2 IO DP;IO T2 WB DP;T2 IO F DP T2")), // DropPrefix while an iterator opened earlier is still open (it pins the memtable and its WAL)
			}
		} else {
			p.Stages = []Stage{
				bfs("lsm", 5, 900, withOps(base, "Sp1a Sp1b Sp2a Sq Dp1a F C0 C1 Yp1 Yp Yp1,q Yp1,p2 Yp1a,p1 Yzz V R")),
				bfs("lsm", 4, 600, withOps(big, "Sp1a Sq Dp1a F C0 C1 Yp1 Yp Yp1,q Yp1,p2 Yp1a,qq Yp1a,p1 V R"), seeds...),
				bfs("lsm", 6, 600, withOps(base, "Dq Sq Sp1a Dp1a F C0 Yp1 Yp1,p2 R"), seq("Sq F"), seq("Sq Sp2a F")),
				sched("c29race", 3, 4, 600, prm("cases", 4)),
				en("crash08", 16, 900, prm("oracle", "c29", "len", 5, "alphabet", "T2 TV WB F C DP DA R")),
			}
		}
		return p
	}

	planTable["C30"] = func(q bool) *Plan {
		p := &Plan{Level: "model_checking", Engine: "E-sched + E-crash",
			Text:      "Two (three) Sequence objects on one key with bandwidth 2, each calling Next three times (retrying on error, optionally Release in between) under every interleaving up to the preemption bound of the lease transactions (points at read-timestamp wait, after the conflict check / timestamp allocation and at the lease assignment): every returned number is unique across objects, strictly increasing per object, and a Sequence object created afterwards continues above everything handed out. Crash part: a history of Next/Release calls with every persistence step as a crash point; after recovery GetSequence+Next never returns a number handed out before the crash. The same two-object scenario with Options.DetectConflicts off (bound 1).",
			Note:      "Bandwidth 2 so that every second Next runs a lease transaction; lease transactions of different objects conflict with each other.",
			Technique: "stateless model checking (controlled scheduler, preemption-bounded DFS); crash-point enumeration",
			Rule:      "schedules up to the bound; distinct = distinct tuples of returned numbers"}
		if q {
			p.Stages = []Stage{sched("c30seq", 2, 16, 40, prm("objects", 2)), sched("c30seq", 1, 16, 30, prm("objects", 2, "release", true)), sched("c30seq", 2, 16, 30, prm("objects", 2, "release", true)), sched("c30seq", 3, 16, 30, prm("objects", 2)), sched("c30seq", 1, 16, 20, prm("objects", 2, "no_conflict_detection", true))}
		} else {
			p.Stages = []Stage{sched("c30seq", 3, 16, 600, prm("objects", 2)), sched("c30seq", 2, 16, 600, prm("objects", 3)), sched("c30seq", 2, 16, 600, prm("objects", 2, "release", true))}
		}
		return p
	}

	planTable["C31"] = lsmPlan("Merge operator with string concatenation (order- and loss-revealing) on the real DB: Add, the operator's periodic merge compaction as an explicit transition, flushes, every picker compaction, close/re-open with a new operator, optionally writes to a neighbouring key; after every transition MergeOperator.Get must equal the concatenation of all added values in Add order, and ErrKeyNotFound before the first Add. A merge function that returns one of its arguments (a maximum) over 2 / 90 / 101 / 150 un-merged Adds, the largest at every boundary position.",
		stateRule,
		[]Stage{en("c31alias", 4, 20, nil), bfs("merge", 8, 70, prm("l0_tables", 1, "keys", 1)),
			// the merge key already in the base level, then overlapping L0 tables of which the newest ends before the merge key and an older one reaches past it
			bfs("merge", 7, 60, prm("l0_tables", 2, "keys", 1, "other", true, "ops", "MA SZ Sa F C0"), seq("MA F MA F C0")),
			// added values in the value log, value-log GC rewriting them (the rewritten entry must stay a merge entry)
			bfs("merge", 8, 50, prm("l0_tables", 1, "keys", 1, "gc", true, "big", true, "vlog_max_entries", 1, "ops", "MB F G C0"))},
		[]Stage{en("c31alias", 4, 60, nil), bfs("merge", 8, 900, prm("l0_tables", 1, "keys", 1)), bfs("merge", 7, 600, prm("l0_tables", 2, "keys", 1, "other", true, "nvk", 2)), bfs("merge", 9, 600, prm("l0_tables", 1, "keys", 1, "gc", true, "big", true, "vlog_max_entries", 1, "ops", "MA MB MC F G C0 R"))})

	planTable["C32"] = func(q bool) *Plan {
		p := &Plan{Level: "model_checking", Engine: "E-enum + E-sched",
			Text:      "Trie level: every pattern = prefix of length <= 3 over {a,b,0xff} x every ignore mask over 3 positions (written as lists and as ranges) against every key of length <= 4 over the same alphabet: Trie.Get equals a reference matcher; pairs/triples of patterns with deletion. DB level: a subscriber (patterns: one continuing with 0xFF, a plain prefix, one with an ignored position plus a second pattern, the empty prefix; and, in managed mode, a prefix with writers that put two versions into one request through a managed write batch) is registered and durably blocked before two concurrent committers write matching and non-matching user keys; under every interleaving up to the bound it must receive exactly one KV (key, value, version, user meta) per matching user-key write, in commit-timestamp order, and nothing for a user key matching no pattern. Side channel (c32side, inside a bubble, decided at quiescence): a forced value-log GC and a merge operator storing its fold deliver nothing (they commit nothing); a refused Subscribe leaves no subscriber registered and 1100 later commits all arrive; a value buffer re-used right after Commit returned does not change what is delivered.",
			Note:      "KVs for internal !badger! keys are ignored (the property speaks about user keys).",
			Technique: "bounded-exhaustive enumeration (trie) + stateless model checking (publisher under the controlled scheduler)",
			Rule:      "patterns x keys; 4 subscriber cases x schedules up to the bound"}
		if q {
			p.Stages = []Stage{en("c32trie", 8, 40, nil), en("c32side", 4, 30, nil), sched("c32pub", 2, 5, 40, prm("cases", 5)), sched("c32pub", 3, 5, 30, prm("cases", 5))}
		} else {
			p.Stages = []Stage{en("c32trie", 16, 300, prm("stride", 1)), en("c32side", 4, 60, nil), sched("c32pub", 3, 5, 600, prm("cases", 5))}
		}
		return p
	}

	planTable["C23"] = enumPlan("exploration",
		"Every sequence of up to 4 (quick) / 5 (thorough, plus value-log GC) operations out of {inline set, value-log set, delete, flush, compaction, advance the (virtual) clock past the data-key rotation interval, close/re-open, master-key rotation (the two library calls the badger rotate command makes: OpenKeyRegistry with the old key, WriteKeyRegistry with the new one), open with a wrong key} on a database encrypted with a 16-, 24- or 32-byte master key (rotating over the cases), data-key rotation interval 1 s. After every step: Get and iteration equal a map model (so data written under earlier data keys and before a master-key rotation stays readable); no file of the directory (tables, WAL, value log, MANIFEST, KEYREGISTRY, DISCARD, LOCK) contains a user key or a distinctive value prefix in plaintext; no two encryption calls used the same (data key id, IV) pair (y.VerifIV hook in the record encoder and the block encryptor); after a master-key rotation the old key no longer opens the database; an open with a wrong key fails with ErrEncryptionKeyMismatch and leaves every file byte-identical. Environment deviation (second stage, alphabet {inline set, value-log set, flush, clock advance, failed KEYREGISTRY write, re-open}, up to 5 / 6 steps): one request for the latest data key runs while KEYREGISTRY cannot be written; the next request must again return a persisted key and nothing written afterwards may be in plaintext. Scripted: rotation intervals of 100 years and MaxInt64 (the first data key must still be created), and read-only opens after the rotation interval has elapsed.",
		"Runs inside a synctest bubble (virtual clock drives data-key rotation). The rotate command lives in package badger/cmd, which cannot be imported from the package under test; its two library calls are made directly.",
		"recursive enumeration of operation sequences; distinct = distinct (master key size, sequence); counters: encryptions observed, data keys used",
		[]Stage{en("c23enc", 16, 90, prm("len", 4)), en("c23enc", 16, 60, prm("len", 5, "alphabet", "S B F A X R"))},
		[]Stage{en("c23enc", 16, 1500, prm("len", 5, "alphabet", "S B D F C G A R K W")), en("c23enc", 16, 600, prm("len", 6, "alphabet", "S B F C A X R"))})

	planTable["C24"] = func(q bool) *Plan {
		p := &Plan{Level: "model_checking", Engine: "E-enum + E-sched",
			Text:      "Histories: every sequence of up to 4 (quick) / 5 (thorough) operations out of {set a, set b, delete a, set a with discard-earlier-versions, set a already expired, set a with a future expiry, flush, compaction, backup point} on a source DB with NumVersionsToKeep 1 and 100. At every backup point an incremental backup is taken with exactly the version the previous backup returned; at the end a last incremental and a full backup. The full backup loaded into an empty DB and the chain loaded in order into another both show the source's final visible state (value, user meta, expiry through Get and iteration); with NumVersionsToKeep 100 the restored version list of every key equals the source's versions down to and including the first delete / expired / discard-earlier entry plus the delete marker Backup adds below a discard-earlier entry; the version a full backup returns is the newest version it dumped; after Load a new commit gets a timestamp above every loaded version and is read back. Schedules: a full backup with two producer goroutines over four accounts in different key ranges races a transaction moving an amount between the first and the last; then an incremental backup from the returned version; under every interleaving up to the bound, loading full + incremental reproduces the source's final state. A Load that needs three KVLoader batches runs with badger's writer goroutine as a scheduled thread (batches queued or half applied while the loader fills the next one): every key of the backup must be present afterwards. After Load, a crash image (copy of the open directory) must re-open with the loaded content, and the full backup loaded into an InMemory database shows the same state.",
			Note:      "Backups are taken through DB.Backup / DB.Load on real databases; expiry uses explicit ExpiresAt values (already past / far future).",
			Technique: "bounded-exhaustive enumeration of histories with backup points + stateless model checking of backup producers vs a concurrent commit (controlled scheduler)",
			Rule:      "all operation sequences up to the length (maintenance-only prefixes pruned) x NumVersionsToKeep; schedules up to the bound"}
		if q {
			p.Stages = []Stage{sched("c24sched", 2, 8, 40, nil), sched("c24load", 2, 4, 30, nil), en("c24seq", 16, 90, prm("len", 3)), en("c25seq", 16, 40, prm("maxsize_only", true)), en("c24trunc", 16, 30, nil)}
		} else {
			p.Stages = []Stage{sched("c24sched", 3, 16, 300, nil), sched("c24load", 3, 16, 300, nil), en("c24seq", 16, 1500, prm("len", 5)), en("c25seq", 16, 300, prm("maxsize_only", true)), en("c24trunc", 16, 60, nil)}
		}
		return p
	}

	planTable["C25"] = func(q bool) *Plan {
		p := &Plan{Level: "model_checking", Engine: "E-sched + E-enum",
			Text:      "Schedules: a Stream run with two producer goroutines over four accounts that lie in different key ranges races a committer that moves an amount from the first to the last account in one transaction; the producers (points after their transaction is created and at each range pick-up) and the committer are interleaved in every way up to the preemption bound; each account must be delivered exactly once and the delivered (first, last) pair must be a state some single snapshot holds (before or after the transfer, never mixed); Send never runs concurrently with itself; in a second case the committer also finishes a read, flushes and compacts the old versions away (NumVersionsToKeep 1) while the stream runs, which the stream's snapshot must survive. Configurations (sequential): 4 layouts (memtable only / last level in several small tables / last level + L0 + memtable / the same plus user keys whose bytes equal the key-range split points; 15+ keys with up to 3 versions and tombstones) x NumVersionsToKeep {1,100} x NumGo {1,2,3} x Prefix {none,k0,k1} x ChooseKey {all, even, odd} x SinceTs {0, mid}: the delivered KV lists (key, version, value, user meta, expiry; grouped per key, each key once) equal what one read snapshot taken at the start shows under the default KeyToList.",
			Note:      "Producer goroutines are scheduled through the stream.txn / stream.range hook points; range boundaries come from the production DB.Ranges.",
			Technique: "stateless model checking of the stream producers against a concurrent committer (controlled scheduler, preemption-bounded DFS) + bounded-exhaustive enumeration of configurations",
			Rule:      "schedules up to the bound, distinct = distinct delivered (first,last) pairs; configurations = the full cross product"}
		if q {
			p.Stages = []Stage{sched("c25sched", 2, 8, 40, prm("cases", 2)), en("c25seq", 16, 60, nil)}
		} else {
			p.Stages = []Stage{sched("c25sched", 3, 16, 600, prm("cases", 2)), en("c25seq", 16, 300, nil)}
		}
		return p
	}

	planTable["C35"] = enumPlan("exploration",
		"Handles A and B in the checking process and handle C in a helper process (same binary, driven over a pipe); every sequence of up to 4 (quick) / 6 (thorough) operations OpenRW / OpenRO / Close over the three handles (Close only on an open handle) under four directory layouts - all handles on Dir=ValueDir=X; all on (X,Y); crossed (A and C on (X,Y), B on (Y,X)); partially overlapping (A on (X,Y), B on (Z,Y), C on (X,X)): every Open succeeds exactly when the per-directory reader-writer-lock model allows it (no writer on any of its directories, and no reader either for a read-write open), a refused open fails with the directory-lock error, leaves no lock behind (later legal opens succeed), and an in-process writer can still write afterwards; Close releases the lock. Environment deviation: the advisory pid file of Dir / ValueDir / both is removed while a read-write handle is open (2 layouts x 4 removals x opener in the same or in another process x read-write / read-only): Close may report it but the next Open must succeed and find the data.",
		"Real flock-based locking between two OS processes and within one process; databases are real (initialised once per directory pair so that read-only opens find a MANIFEST).",
		"recursive enumeration of operation sequences with the lock model deciding which handles are open; distinct = distinct (layout, sequence)",
		[]Stage{en("c35pid", 4, 20, nil), en("c35lock", 16, 90, prm("len", 4))},
		[]Stage{en("c35pid", 4, 60, nil), en("c35lock", 16, 1200, prm("len", 6))})

	planTable["C26"] = enumPlan("exploration",
		"Stream contents: every non-empty subset of 5 user keys {a,ab,b,c,d} x 3 version patterns (two versions each / newest only / mixed), values at threshold-1/threshold/threshold+1, delete markers, user meta, expiry; split into one or two streams with disjoint key ranges at every key boundary; x {Prepare on a non-empty DB, PrepareIncremental on an empty DB, over data in the last level only, over L0 + last level (the Flatten branch)}; each stream cut into Write batches by 3 patterns (one batch / singletons / two halves that may separate a key's versions), the two streams' batches interleaved 4 ways (including both streams in one buffer), done markers absent / with the last batch / in a separate buffer, plain / encrypted / snappy / in-memory (quick: 2 rotating combinations of these four per (content, split, mode); thorough: all 432); table size 300 bytes so a stream spans several tables, ValueLogMaxEntries 1 so the value log rotates between the streams of one Write call. After Flush: the dump of ALL versions (value, user meta, expiry, delete markers) equals exactly the streamed entries plus, in incremental mode, the pre-existing ones; levels are structurally valid and match the MANIFEST and the files; the same after close and re-open; the next commits get timestamps above every streamed version and are read back. With real compactors (2 / 4) and pre-existing data in level 0 and / or the last level: PrepareIncremental must leave no compactor running, Flush must leave exactly the configured number, and ten virtual minutes after Close none (c26inc).",
		"Drives StreamWriter.Prepare/PrepareIncremental/Write/Flush on the real DB.",
		"nested enumeration; distinct = distinct (content, split, mode, batching, interleaving, done markers, configuration)",
		[]Stage{en("c26sw", 16, 90, nil), en("c26inc", 8, 30, nil)},
		[]Stage{en("c26sw", 16, 1500, prm("full", true)), en("c26inc", 8, 60, nil)})

	planTable["C27"] = enumPlan("exploration",
		"All operation sequences of length <= 4 (quick) / 5 (thorough) over {Set, Delete} x {x,y} for NewWriteBatch (normal DB) and NewWriteBatchAt(6), (NewWriteBatchAt additionally mixes in SetEntryAt / DeleteAt on x at 5, 6 - the batch's own timestamp - and 7), over {SetEntryAt, DeleteAt} x {x,y} x {ts 5,7} for NewManagedWriteBatch, and over calls without a version mixed with versioned ones for NewManagedWriteBatch (Flush may refuse such a batch; when it returns nil a key whose last call had no version must show that call to a reader at the largest timestamp), with the batch's transaction limit set so that it splits after every 1, 2 or 3 entries (and not at all); after Flush every key is read (managed: at every timestamp 4..8) and must show the LAST call for that key (and version).",
		"Runs on an in-memory DB; the split is forced through the same count limit that production uses (maxBatchCount).",
		"nested enumeration; distinct = distinct (mode, split, operation sequence)",
		[]Stage{en("c27batch", 16, 60, prm("len", 4))},
		[]Stage{en("c27batch", 16, 900, prm("len", 5))})

	planTable["C28"] = enumPlan("exploration",
		"Validation: empty/nil keys, reserved !badger! prefix (and near misses), key lengths 1 / 65000 / 65001, values at and over the value-log file size (disk) , banned and unbanned namespaces with NamespaceOffset 0 and 3 (keys shorter than, exactly at and beyond the namespace window), for Set and Delete, each placed between two valid writes of the same transaction: rejected writes leave the transaction usable and the good writes commit; accepted keys round-trip; banned keys are unreadable. Size accounting: for 1-3 entries, inline and pointer-sized, the last value size sweeping from 120 bytes below to 8 above maxBatchSize, with commit timestamps of 1, 3 and 19 digits (managed) and after 0 / 100 earlier commits (normal), plus the entry-count limit exactly, and 100 accepted 2000-byte Sets in a transaction that stays open while other commits move the dynamic value threshold (VLogPercentile) from 32 to about 6000: whenever every Set was accepted Commit must not return ErrTxnTooBig. Three times maxBatchCount rejected writes to a banned namespace must leave the transaction's budget untouched (a valid write and Commit still succeed).",
		"Boundary sweep is byte-exact around the limits that checkSize / sendToWriteCh apply.",
		"nested enumeration; distinct = distinct (configuration, case)",
		[]Stage{en("c28validate", 16, 90, nil)},
		[]Stage{en("c28validate", 16, 600, nil)})
}
