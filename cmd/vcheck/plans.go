package main

import "strings"

// plans: for every claimed property, what is enumerated in each tier.

func sched(scn string, bound, nshard int, budget float64, params map[string]any) Stage {
	return Stage{Binary: "badger.coarse", Scenario: scn, Bound: bound, NShard: nshard, BudgetS: budget, Params: params}
}

func bfs(scn string, depth int, budget float64, params map[string]any, seeds ...[]string) Stage {
	return Stage{Binary: "badger.coarse", Kind: "bfs", Scenario: scn, Depth: depth, NShard: 16, BudgetS: budget, Params: params, Seeds: seeds, MaxFrontier: 60000}
}

func seq(s string) []string {
	if s == "" {
		return []string{}
	}
	return strings.Fields(s)
}

func prm(kv ...any) map[string]any {
	m := map[string]any{}
	for i := 0; i+1 < len(kv); i += 2 {
		m[kv[i].(string)] = kv[i+1]
	}
	return m
}

var commonAssume = []string{
	"sequentially consistent interleavings of the hooked synchronisation points; data races are looked for separately",
	"virtual time (testing/synctest bubble clock)",
	"go1.26.8 toolchain; sync replaced by a channel-based shim with the same blocking semantics",
}

var planTable = map[string]func(q bool) *Plan{}

func plans(id, tier string) (*Plan, bool) {
	f, ok := planTable[id]
	if !ok {
		return nil, false
	}
	p := f(tier != "thorough")
	p.ID = id
	if p.Assume == nil {
		p.Assume = commonAssume
	}
	return p, true
}

func init() {
	planTable["C03"] = func(q bool) *Plan {
		p := &Plan{Level: "model_checking", Engine: "E-sched",
			Text:      "Every interleaving (up to the stated preemption bound, at the hooked points of the commit pipeline) of concurrent Commit / CommitWith / NewTransaction on the real DB is executed and checked: distinct commit timestamps consistent with real-time order, all-or-nothing visibility per reader, acknowledged commits visible to later readers, failed commits invisible.",
			Note:      "Interleavings are explored at the granularity of the enabled hook points under sequential consistency; small harness (2-3 committers, 2 readers, 3 keys).",
			Technique: "stateless model checking of the real commit pipeline (controlled scheduler, preemption-bounded DFS)",
			Rule:      "every schedule of the harness threads over the enabled points with at most <bound> preemptions; distinct = distinct (commit-ts assignment, reader read-ts) outcomes"}
		if q {
			p.Stages = []Stage{sched("c03a", 0, 1, 20, nil), sched("c03a", 1, 16, 25, nil), sched("c03a", 2, 16, 30, nil)}
		} else {
			p.Stages = []Stage{sched("c03a", 0, 1, 30, nil), sched("c03a", 1, 16, 60, nil), sched("c03a", 2, 16, 300, nil), sched("c03a", 3, 16, 300, nil)}
		}
		return p
	}
	planTable["C12"] = func(q bool) *Plan {
		p := &Plan{Level: "model_checking", Engine: "E-seq",
			Text:      "Breadth-first search over operation sequences (writes, deletes, flush, every compaction the production picker offers to compactor 0 and 1, table ageing, discard-watermark moves) on the real DB; after every transition every key is read by Get and both iterator directions at every timestamp at or above the discard watermark and compared with an MVCC reference model.",
			Note:      "Small alphabets (2-3 keys), tiny table/level sizes so that multi-level shapes are reached in a few steps; states deduplicated by canonical LSM shape.",
			Technique: "explicit-state BFS over operation sequences executed on the implementation, reference-model oracle",
			Rule:      "BFS states = canonical LSM shapes (per level: tables with their (key, version-rank, meta) lists and age class; memtable; watermark position); transitions = operations applied to the real DB"}
		if q {
			p.Stages = []Stage{bfs("lsm", 4, 60, prm("oracle", "c12"))}
		} else {
			p.Stages = []Stage{bfs("lsm", 6, 600, prm("oracle", "c12"))}
		}
		return p
	}

	lsmPlan := func(text, rule string, quick, thorough []Stage) func(q bool) *Plan {
		return func(q bool) *Plan {
			p := &Plan{Level: "model_checking", Engine: "E-seq", Text: text,
				Note:      "Small alphabets (1-3 keys), tiny table/level sizes so that multi-level shapes are reached in a few steps; states deduplicated by canonical LSM shape; a fresh real DB per transition (replay from scratch).",
				Technique: "explicit-state BFS over operation sequences executed on the implementation, reference-model oracle",
				Rule:      rule}
			if q {
				p.Stages = quick
			} else {
				p.Stages = thorough
			}
			return p
		}
	}
	stateRule := "BFS states = canonical LSM shapes (per level: tables with their (key, version, meta) lists and age class; memtable; watermark position); transitions = operations applied to the real DB; every state is non-trivial and distinct by construction"
	planTable["C13"] = lsmPlan("Same state space as C12 with discard-earlier-versions entries added and NumVersionsToKeep 1, 2 and unlimited; after every transition the AllVersions dump must contain every version the retention rule promises (computed by a reference model from the write history and the current watermark) and nothing that was never written.",
		stateRule,
		[]Stage{bfs("lsm", 4, 40, prm("oracle", "c13", "nvk", 1, "keys", 1)), bfs("lsm", 4, 40, prm("oracle", "c13", "nvk", 2, "keys", 1))},
		[]Stage{bfs("lsm", 6, 300, prm("oracle", "c13", "nvk", 1, "keys", 1)), bfs("lsm", 6, 300, prm("oracle", "c13", "nvk", 2, "keys", 1)), bfs("lsm", 5, 300, prm("oracle", "c13", "nvk", 1000, "keys", 2))})
	planTable["C14"] = lsmPlan("Same state space as C12 including close/re-open transitions; after every transition: levels >= 1 sorted with disjoint ranges, no user key split across two tables of a level, table ids unique, production validate() passes, in-memory levels == MANIFEST == .sst files on disk; Open after any history succeeds.",
		stateRule,
		[]Stage{bfs("lsm", 4, 60, prm("oracle", "c14", "keys", 3, "reopen", true))},
		[]Stage{bfs("lsm", 6, 600, prm("oracle", "c14", "keys", 3, "reopen", true))})
	planTable["C36"] = lsmPlan("Managed-mode histories with caller-chosen, non-monotonic commit timestamps (CommitAt and per-entry SetEntryAt through a managed write batch), deletes at chosen timestamps, discard-timestamp moves, flushes and compactions; after every transition reads at every timestamp >= the discard timestamp equal the reference model and Item.Version equals the caller's timestamp.",
		stateRule,
		[]Stage{bfs("lsm", 4, 60, prm("oracle", "c36", "keys", 1, "managed_ts", true))},
		[]Stage{bfs("lsm", 6, 600, prm("oracle", "c36", "keys", 1, "managed_ts", true))})
}
