package main

import (
	"bufio"
	"encoding/json"
	"fmt"
	"os"
	"path/filepath"
	"sort"
	"strings"
	"sync"
	"time"

	"verif/engine/vlib"
)

type seqChild struct {
	Seq []string `json:"seq"`
	Key string   `json:"key"`
}

// runBFS runs a level-synchronous breadth-first search stage: workers expand slices of the
// frontier on the real DB, the driver deduplicates states by canonical key.
func runBFS(plan *Plan, st Stage, si int, tier string, seed int64) (*vlib.Result, []string) {
	total := &vlib.Result{}
	var internal []string
	seen := map[string]bool{}
	n := st.NShard
	if n <= 0 {
		n = 16
	}
	deadline := time.Now().Add(time.Duration(st.BudgetS * float64(time.Second)))
	seeds := st.Seeds
	if len(seeds) == 0 {
		seeds = [][]string{{}}
	}
	frontier := seeds
	jobsDir := filepath.Join(workDir, "jobs")
	_ = os.MkdirAll(jobsDir, 0o755)
	states := 0
	for round := 0; round <= st.Depth; round++ {
		if len(frontier) == 0 {
			break
		}
		if st.MaxFrontier > 0 && len(frontier) > st.MaxFrontier {
			// deterministic truncation, rotated by the seed
			off := int(seed) % len(frontier)
			if off < 0 {
				off = -off
			}
			frontier = append(frontier[off:], frontier[:off]...)[:st.MaxFrontier]
			total.Capped, total.CapReason = true, fmt.Sprintf("frontier cap %d at depth %d", st.MaxFrontier, round)
		}
		remaining := time.Until(deadline).Seconds()
		if remaining < 2 {
			total.Capped, total.CapReason = true, fmt.Sprintf("stage budget exhausted before depth %d (frontier %d)", round, len(frontier))
			break
		}
		fpath := filepath.Join(jobsDir, fmt.Sprintf("%s.s%d.r%d.frontier.json", plan.ID, si, round))
		fb, _ := json.Marshal(frontier)
		_ = os.WriteFile(fpath, fb, 0o644)
		nw := n
		if len(frontier) < nw {
			nw = len(frontier)
		}
		outs := make([]workerOut, nw)
		cpaths := make([]string, nw)
		var wg sync.WaitGroup
		for sh := 0; sh < nw; sh++ {
			wg.Add(1)
			go func(sh int) {
				defer wg.Done()
				params := map[string]any{}
				for k, v := range st.Params {
					params[k] = v
				}
				cpaths[sh] = filepath.Join(jobsDir, fmt.Sprintf("%s.s%d.r%d.w%d.children", plan.ID, si, round, sh))
				params["frontier"] = fpath
				params["children"] = cpaths[sh]
				params["validate"] = round == 0
				job := &vlib.Job{Property: plan.ID, Scenario: st.Scenario, Tier: tier, Seed: seed, Shard: sh, NShard: nw,
					BudgetS: remaining, Params: params}
				outs[sh] = runWorker(st.Binary, job, fmt.Sprintf("%s.s%d.r%d.w%d", plan.ID, si, round, sh), time.Duration(remaining*2+120)*time.Second)
			}(sh)
		}
		wg.Wait()
		var next []seqChild
		roundRes := &vlib.Result{}
		for sh, wo := range outs {
			if wo.res == nil {
				v, note := handleDeadWorker(plan, st, wo, fmt.Sprintf("%s.s%d.r%d.w%d", plan.ID, si, round, sh))
				if v != nil {
					roundRes.Violations = append(roundRes.Violations, *v)
				} else {
					internal = append(internal, note)
				}
				continue
			}
			if wo.res.Internal != "" {
				internal = append(internal, fmt.Sprintf("%s round %d shard %d: %s", st.Scenario, round, sh, wo.res.Internal))
			}
			roundRes.Merge(wo.res)
			f, err := os.Open(cpaths[sh])
			if err != nil {
				continue
			}
			sc := bufio.NewScanner(f)
			sc.Buffer(make([]byte, 1<<20), 1<<26)
			for sc.Scan() {
				var c seqChild
				if json.Unmarshal(sc.Bytes(), &c) == nil {
					next = append(next, c)
				}
			}
			f.Close()
			os.Remove(cpaths[sh])
		}
		os.Remove(fpath)
		roundRes.States = 0
		total.Merge(roundRes)
		if hasUnknown(plan.ID, roundRes.Violations) {
			break
		}
		sort.Slice(next, func(i, j int) bool {
			a, b := strings.Join(next[i].Seq, " "), strings.Join(next[j].Seq, " ")
			if len(next[i].Seq) != len(next[j].Seq) {
				return len(next[i].Seq) < len(next[j].Seq)
			}
			return a < b
		})
		frontier = frontier[:0]
		for _, c := range next {
			if seen[c.Key] {
				continue
			}
			seen[c.Key] = true
			states++
			frontier = append(frontier, c.Seq)
		}
		fmt.Printf("  bfs %s depth %d: new states %d (total %d), transitions so far %d\n", st.Scenario, round, len(frontier), states, total.Transitions)
		total.MaxDepth = round
		if roundRes.Capped {
			break
		}
	}
	total.States = int64(states)
	total.Distinct = int64(states)
	total.DistinctSet = nil
	return total, internal
}
