// Package vatomic is a drop-in replacement for the typed values of sync/atomic that badger's
// skl and y packages use.  The types have exactly the layout of the originals (skl computes node
// sizes with unsafe.Sizeof) and every operation first calls Hook (fine mode: every atomic
// operation is a schedule point).
package vatomic

import "sync/atomic"

// Hook, when non-nil, is called before every atomic operation.
var Hook func(op string)

func pt(op string) {
	if h := Hook; h != nil {
		h(op)
	}
}

type Uint32 struct{ v atomic.Uint32 }

func (x *Uint32) Load() uint32                    { pt("load"); return x.v.Load() }
func (x *Uint32) Store(n uint32)                  { pt("store"); x.v.Store(n) }
func (x *Uint32) Add(d uint32) uint32             { pt("add"); return x.v.Add(d) }
func (x *Uint32) Swap(n uint32) uint32            { pt("swap"); return x.v.Swap(n) }
func (x *Uint32) CompareAndSwap(o, n uint32) bool { pt("cas"); return x.v.CompareAndSwap(o, n) }

type Uint64 struct{ v atomic.Uint64 }

func (x *Uint64) Load() uint64                    { pt("load"); return x.v.Load() }
func (x *Uint64) Store(n uint64)                  { pt("store"); x.v.Store(n) }
func (x *Uint64) Add(d uint64) uint64             { pt("add"); return x.v.Add(d) }
func (x *Uint64) Swap(n uint64) uint64            { pt("swap"); return x.v.Swap(n) }
func (x *Uint64) CompareAndSwap(o, n uint64) bool { pt("cas"); return x.v.CompareAndSwap(o, n) }

type Int32 struct{ v atomic.Int32 }

func (x *Int32) Load() int32                    { pt("load"); return x.v.Load() }
func (x *Int32) Store(n int32)                  { pt("store"); x.v.Store(n) }
func (x *Int32) Add(d int32) int32              { pt("add"); return x.v.Add(d) }
func (x *Int32) Swap(n int32) int32             { pt("swap"); return x.v.Swap(n) }
func (x *Int32) CompareAndSwap(o, n int32) bool { pt("cas"); return x.v.CompareAndSwap(o, n) }

type Int64 struct{ v atomic.Int64 }

func (x *Int64) Load() int64                    { pt("load"); return x.v.Load() }
func (x *Int64) Store(n int64)                  { pt("store"); x.v.Store(n) }
func (x *Int64) Add(d int64) int64              { pt("add"); return x.v.Add(d) }
func (x *Int64) Swap(n int64) int64             { pt("swap"); return x.v.Swap(n) }
func (x *Int64) CompareAndSwap(o, n int64) bool { pt("cas"); return x.v.CompareAndSwap(o, n) }

type Bool struct{ v atomic.Bool }

func (x *Bool) Load() bool                    { pt("load"); return x.v.Load() }
func (x *Bool) Store(n bool)                  { pt("store"); x.v.Store(n) }
func (x *Bool) Swap(n bool) bool              { pt("swap"); return x.v.Swap(n) }
func (x *Bool) CompareAndSwap(o, n bool) bool { pt("cas"); return x.v.CompareAndSwap(o, n) }

type Value = atomic.Value

// function forms
func AddInt32(p *int32, d int32) int32     { pt("add"); return atomic.AddInt32(p, d) }
func AddInt64(p *int64, d int64) int64     { pt("add"); return atomic.AddInt64(p, d) }
func AddUint32(p *uint32, d uint32) uint32 { pt("add"); return atomic.AddUint32(p, d) }
func AddUint64(p *uint64, d uint64) uint64 { pt("add"); return atomic.AddUint64(p, d) }
func LoadInt32(p *int32) int32             { pt("load"); return atomic.LoadInt32(p) }
func LoadInt64(p *int64) int64             { pt("load"); return atomic.LoadInt64(p) }
func LoadUint32(p *uint32) uint32          { pt("load"); return atomic.LoadUint32(p) }
func LoadUint64(p *uint64) uint64          { pt("load"); return atomic.LoadUint64(p) }
func StoreInt32(p *int32, v int32)         { pt("store"); atomic.StoreInt32(p, v) }
func StoreInt64(p *int64, v int64)         { pt("store"); atomic.StoreInt64(p, v) }
func StoreUint32(p *uint32, v uint32)      { pt("store"); atomic.StoreUint32(p, v) }
func StoreUint64(p *uint64, v uint64)      { pt("store"); atomic.StoreUint64(p, v) }
func CompareAndSwapInt32(p *int32, o, n int32) bool {
	pt("cas")
	return atomic.CompareAndSwapInt32(p, o, n)
}
func CompareAndSwapInt64(p *int64, o, n int64) bool {
	pt("cas")
	return atomic.CompareAndSwapInt64(p, o, n)
}
func CompareAndSwapUint32(p *uint32, o, n uint32) bool {
	pt("cas")
	return atomic.CompareAndSwapUint32(p, o, n)
}
func CompareAndSwapUint64(p *uint64, o, n uint64) bool {
	pt("cas")
	return atomic.CompareAndSwapUint64(p, o, n)
}
