// Package vsync is a drop-in replacement for the parts of package sync that badger uses,
// built on channels so that a goroutine blocked on a lock is *durably blocked* in the sense of
// testing/synctest (a goroutine blocked on a real sync.Mutex is not, which would hang
// quiescence detection whenever a thread is parked inside a critical section).
// The build overlay rewrites `import "sync"` to this package in badger's non-test files.
package vsync

import (
	"sync"
	"sync/atomic"
)

// FineHook, when non-nil, is called before every Lock/RLock/Unlock/RUnlock (fine mode:
// lock operations are schedule points).
var FineHook func(op string)

type (
	Locker    = sync.Locker
	WaitGroup = sync.WaitGroup
	Map       = sync.Map
	Cond      = sync.Cond
)

func NewCond(l Locker) *Cond { return sync.NewCond(l) }

type chanBox struct{ ch chan struct{} }

// Mutex is a channel-based mutual exclusion lock; the zero value is unlocked.
type Mutex struct {
	p atomic.Pointer[chanBox]
}

func (m *Mutex) c() chan struct{} {
	if b := m.p.Load(); b != nil {
		return b.ch
	}
	nb := &chanBox{ch: make(chan struct{}, 1)}
	if m.p.CompareAndSwap(nil, nb) {
		return nb.ch
	}
	return m.p.Load().ch
}

func (m *Mutex) Lock() {
	if f := FineHook; f != nil {
		f("lock")
	}
	m.c() <- struct{}{}
}

func (m *Mutex) TryLock() bool {
	select {
	case m.c() <- struct{}{}:
		return true
	default:
		return false
	}
}

func (m *Mutex) Unlock() {
	if f := FineHook; f != nil {
		f("unlock")
	}
	select {
	case <-m.c():
	default:
		panic("vsync: unlock of unlocked mutex")
	}
}

// RWMutex is a writer-preferring reader/writer lock built from channel mutexes: new readers
// queue behind a waiting writer, as with sync.RWMutex, so recursive read locking deadlocks
// stay visible.
type RWMutex struct {
	w       Mutex // held by a writer for the whole write section, and briefly by entering readers
	mu      Mutex // protects readers / wait
	readers int
	wait    chan struct{} // non-nil while a writer waits for readers to drain
}

func (rw *RWMutex) RLock() {
	if f := FineHook; f != nil {
		f("rlock")
	}
	rw.w.c() <- struct{}{} // blocks while a writer holds or waits
	rw.mu.c() <- struct{}{}
	rw.readers++
	<-rw.mu.c()
	<-rw.w.c()
}

func (rw *RWMutex) RUnlock() {
	if f := FineHook; f != nil {
		f("runlock")
	}
	rw.mu.c() <- struct{}{}
	rw.readers--
	if rw.readers < 0 {
		panic("vsync: RUnlock of unlocked RWMutex")
	}
	if rw.readers == 0 && rw.wait != nil {
		close(rw.wait)
		rw.wait = nil
	}
	<-rw.mu.c()
}

func (rw *RWMutex) Lock() {
	if f := FineHook; f != nil {
		f("lock")
	}
	rw.w.c() <- struct{}{}
	rw.mu.c() <- struct{}{}
	if rw.readers > 0 {
		ch := make(chan struct{})
		rw.wait = ch
		<-rw.mu.c()
		<-ch
		return
	}
	<-rw.mu.c()
}

func (rw *RWMutex) Unlock() {
	if f := FineHook; f != nil {
		f("unlock")
	}
	select {
	case <-rw.w.c():
	default:
		panic("vsync: Unlock of unlocked RWMutex")
	}
}

func (rw *RWMutex) RLocker() Locker { return (*rlocker)(rw) }

type rlocker RWMutex

func (r *rlocker) Lock()   { (*RWMutex)(r).RLock() }
func (r *rlocker) Unlock() { (*RWMutex)(r).RUnlock() }

// Once is sync.Once on a channel mutex (a second caller blocked behind a running f is durably
// blocked).
type Once struct {
	done atomic.Uint32
	m    Mutex
}

func (o *Once) Do(f func()) {
	if o.done.Load() == 1 {
		return
	}
	o.m.Lock()
	defer o.m.Unlock()
	if o.done.Load() == 0 {
		defer o.done.Store(1)
		f()
	}
}

// Pool never pools: no object is reused across executions.
type Pool struct {
	New func() any
}

func (p *Pool) Get() any {
	if p.New != nil {
		return p.New()
	}
	return nil
}
func (p *Pool) Put(any) {}
